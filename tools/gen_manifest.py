#!/usr/bin/env python3
"""Generates /verif/MANIFEST.json from the table below (keeps it schema-valid at all times)."""
import json, os

ENG = {
    "E1": "bounded-exhaustive choice-tree / odometer enumeration of the real implementation against a reference model",
    "E2": "explicit-state breadth-first search over receiver histories / case lists, transitions call the real implementation",
    "E3": "controlled cooperative scheduler + sync shim (go build -overlay), preemption-bounded DFS over all interleavings",
}

# id -> (engine, technique, level text, level note, design ref)
CHECKS = {
 "C01": ("E1", "bounded-exhaustive enumeration (all 3,652,425 dates x formats x output/input paths) vs ordinal-calendar reference model",
  "Every date of years 0000-9999 and a stated set of 5-9 digit years is pushed through every output path and every input path of the real code and compared with a digit-by-digit reference rendering; complete for the 4-digit range, so no calendar date in it can violate the round trip.",
  "Trusted: Go toolchain/stdlib (fmt, encoding/json, encoding/xml), /verif/oracle calendar model. Years > 9999: only the stated year set (all their days) under MaxInputLength in {0,10..15}.", "3/C01"),
 "C02": ("E1", "bounded-exhaustive enumeration (all n<=130000 x 128 flag sets x DefaultFormat settings) vs independent digit-by-digit numeral generator",
  "All 130,001 numbers x all 128 flag subsets are formatted by the real formatter, compared with an independent generator and parsed back through every entry point; DefaultFormat is swept as a configuration. Complete for the property's stated range.",
  "Trusted: /verif/oracle roman generator. Numerals longer than MaxInputLength (128) are formatted only.", "3/C02"),
 "C03": ("E1", "bounded-exhaustive string enumeration over a 9-symbol alphabet x entry points vs hand-written BNF recogniser; deviation-bounded mutants",
  "Every string over {0,1,9,a,Z,-,.,+,v} up to length 7 (quick) / 8 (thorough), structured suffix/core/number grids and 1-deviation mutants (all 256 byte values) go through every parse entry point and are compared with a recursive-descent SemVer 2.0.0 recogniser (acceptance, components, byte-exact re-format, typed error, sentinel class); Valid<=>round-trip over all short pre-release/build pairs.",
  "Trusted: /verif/oracle semver recogniser (no regexp), decimal-string uint64 limit. Strings outside the alphabets/lengths are not covered.", "3/C03"),
 "C04": ("E1", "bounded-exhaustive enumeration of a stated value alphabet x 8 configurations x marshal paths vs math/big reference",
  "Every value of a stratified alphabet (all values below 2^16/2^20, odd x 2^k for every k, boundary neighbourhoods, every (unit, digit-count) cell) x all 8 Disable* combinations is marshalled by the real code, compared with the expected form and unmarshalled standalone and inside encoding/json containers.",
  "Values outside the alphabet are not covered (2^64 values cannot be enumerated); coverage argument in DESIGN.md. Trusted: encoding/json, /verif/oracle.", "3/C04"),
 "C05": ("E1", "exhaustive single-position sweeps + deviation-bounded (1 and 2 deviations) mutation enumeration vs RFC 4122 positional reference parser",
  "Every bit and every (hex position, digit, case) over background IDs, all version x variant nibbles, and every 1-deviation mutant (all 256 byte values; substitute, insert, delete) and 2-substitution mutant of valid texts x 4 rule subsets x entry points, against an independent strict parser/formatter.",
  "Trusted: /verif/oracle uuid model. A 45-byte text whose prefix differs from urn:uuid: only in the case of 'uuid' is a don't-care.", "3/C05"),
 "C06": ("E1", "exhaustive ordered-pair enumeration over the complete universe of valid pre-releases up to length 4/5 vs independent SemVer section-11 comparator",
  "All ordered pairs of every valid pre-release over {0,1,2,9,a,B,-,.} up to length 4 (quick) / 5 (thorough) plus the empty one, crossed with cores and build metadata, go through every comparison entry point and are compared with an identifier-wise reference comparator; the pinned a01/a1 departure is excluded exactly as stated.",
  "Trusted: /verif/oracle section-11 comparator (math/big for numeric identifiers).", "3/C06"),
 "C07": ("E1", "bounded-exhaustive enumeration (all adjacent date pairs, all pairs of boundary sets, Add/AddDuration/FromTime grids) vs day-ordinal reference",
  "Every date 0000-9999 with its successor, all ordered pairs of two boundary-rich sets, and complete Add / AddDuration / FromTime grids are executed on the real code and judged against ordinal arithmetic written without package time.",
  "Trusted: /verif/oracle calendar; package time only constructs inputs. Sub/DaysBetween judged within time.Duration's range only.", "3/C07"),
 "C08": ("E1", "bounded-exhaustive enumeration of boundary grids, grammar-generated texts and all short symbol strings vs math/big three-valued reference",
  "Per unit every value within a stated distance of the overflow boundary, New over 16 numeric kinds, every separator placement of the text grammar, all symbol strings up to length 6/7, and Bytes[N] at every type/mantissa boundary, against exact big-integer arithmetic with explicit don't-care zones.",
  "amd64 float conversion only. Don't-care zones listed in evidence assumptions. Values outside the grids are not covered.", "3/C08"),
 "C09": ("E1", "bounded-exhaustive string enumeration (year x MM x DD x layout grid; all strings over 6 symbols up to length 9/10; 1-deviation mutants) x rules x limits vs independent recogniser",
  "Complete grids and complete string universes go through every parser entry point under every rule and MaxInputLength setting; acceptance, components, zero result, typed error and the basic-format sentinel are compared with a hand-written recogniser plus Gregorian month lengths.",
  "Trusted: /verif/oracle calendar and recogniser. Error class for over-limit input is left to C18.", "3/C09"),
 "C10": ("E1", "bounded-exhaustive string enumeration over the 14 roman letters (mixed case up to 5/6, single case up to 7/8) + 1-deviation mutants vs group-table evaluator",
  "All strings over both cases of the seven letters up to the stated lengths and foreign-byte mutants are parsed and validated by the real code and compared (membership, value, case-independence, Valid<=>parser, typed error) with an evaluator that tries every split.",
  "Trusted: /verif/oracle roman evaluator. Longer strings only through canonical numerals 0..4999 and limit-boundary runs.", "3/C10"),
 "C11": ("E1", "bounded-exhaustive enumeration (all dates -400..9999 encode/decode; complete byte grids for decode) vs independent encoder",
  "Every date of years -400..9999 and boundary years to +-999,999,999 is encoded and compared byte for byte with an independent encoder and decoded back; all 65,536 month/day byte pairs for 12 years, all version bytes, all lengths 0..16 and a year-byte cross product are decoded and judged.",
  "Trusted: /verif/oracle calendar. |year| > 999,999,999 with a real month/day is a don't-care.", "3/C11"),
 "C12": ("E1", "bounded-exhaustive enumeration of JSON documents generated from an AST (all member sequences up to length 3/4, all prefixes/suffixes) x 16 rule subsets x MaxObjectKeys values vs AST-derived expectation",
  "Documents are generated from an AST so that the expected outcome is known by construction; every member sequence, permutation, duplicate, nesting, truncation and trailing-byte variant is parsed by the real code under every rule subset and key limit and compared with the documented outcome classes; order independence is checked directly.",
  "Trusted: encoding/json for json.Valid on mutated texts; /verif/oracle size arithmetic. Don't-care zones listed in evidence.", "3/C12"),
 "C13": ("E1", "bounded-exhaustive enumeration of a stated value alphabet x formats x rendering paths vs math/big reference",
  "Every value of the stratified alphabet is shortened and rendered through all five paths and compared with a big-integer maximal-divisor computation and an independent right-to-left grouping routine.",
  "Values outside the alphabet are not covered; control-flow coverage argument in DESIGN.md.", "3/C13"),
 "C14": ("E1", "exhaustive ordered-pair enumeration over the pre-release universe (no exclusion) + Next* on every version vs algebraic laws and parsed-value reference",
  "All ordered pairs (including the mixed alphanumeric identifiers C06 excludes) are checked for range, reflexivity, antisymmetry, build-insensitivity, Latest and string-helper agreement; Next* is executed on every version including 2^64-1 with panics caught and compared with the prediction.",
  "Trusted: /verif/oracle semver recogniser for 'valid for that helper'.", "3/C14"),
 "C15": ("E1", "exhaustive enumeration of all (from, to, probe) triples over a date window x nil shapes vs ordinal reference",
  "All pairs of bounds over a 271/430-date window in all four nil shapes are built with the real constructor and probed with every date of the window, before and after the caller's variables are overwritten.",
  "Trusted: /verif/oracle calendar.", "3/C15"),
 "C16": ("E1", "bounded-exhaustive enumeration (type x value x flag subset x prefix x spare capacity) with backing-array snapshots",
  "For all five formatters every flag subset, every single-byte prefix and formatter-alphabet prefixes with spare capacity 0..64 are executed; output must equal prefix ++ format(nil), the caller's bytes must be untouched, and earlier results must survive later calls.",
  "Values are a boundary list per type, not all values.", "3/C16"),
 "C17": ("E2", "explicit-state BFS to fix-point over receiver histories (state = real receiver value) + exhaustive string/bytes/named-type agreement enumeration",
  "Breadth-first search over all histories of Unmarshal*/Scan calls per type, run to the fix-point of reachable receiver values; every transition checks receiver-unchanged-on-error, input-unchanged, result-independent-of-later-buffer-writes; plus exhaustive agreement of string, []byte and named-type instantiations.",
  "Input alphabet per type is a stated finite set (valid texts, 1-deviation mutants, empty, over-long, wrong Scan types).", "3/C17"),
 "C18": ("E1", "bounded-exhaustive token-string enumeration into every public entry point x rule subsets x MaxInputLength settings; deviation-bounded mutants",
  "Every token string up to length 3/4 over a hostile token alphabet (invalid UTF-8, multi-byte runes, NUL, valid fragments) goes into every parsing/validating/comparing entry point under all rule subsets; panics are caught per execution; the limit contract is checked at limit-1, limit, limit+1, 10x for four limit settings per package.",
  "Replaces coverage-guided fuzzing by bounded exhaustive enumeration; longer inputs only through structured long runs. Allocation bound is a generous deterministic byte budget.", "3/C18"),
 "C19": ("E3", "stateless model checking: controlled cooperative scheduler, sync shim via go build -overlay, preemption-bounded DFS over all interleavings x scripted generator answers",
  "uu.RandomID runs on real code with its sync import rewritten to a scheduler shim and the generator replaced by a scripted, yielding source; every interleaving of 2-4 goroutines up to the preemption bound (complete for the small harnesses) is explored and checked for mutual exclusion, lost updates, duplicates, version/variant and deadlock; bit layout is checked exhaustively over single-bit draws.",
  "Statistical quality of math/rand is outside the family (assumption). A free-running -race pass is a non-deciding supplement.", "3/C19"),
 "C20": ("E1", "bounded-exhaustive enumeration of scripted marshaler behaviours x every case shape and of every case list (operation sequence) up to length 3 vs independent pass/fail oracle",
  "Scripted types (value/pointer receivers, missing interface) x every case shape x all six helpers, and every list of up to three cases over a reduced alphabet, are executed with a recording TestingT; the helper must report a failure iff the independent oracle says some applicable case is unmet, and never let a panic escape.",
  "Don't-care zones (statement silent) listed in evidence. ErrorMatch(valid non-matching pattern) is a recorded known finding.", "3/C20"),
}

NOT_YET = "check not built yet in this session (planned, see DESIGN.md section 3)"

def main():
    props = [json.loads(l) for l in open('/verif/properties.jsonl')]
    checks, na = [], []
    for p in props:
        pid = p['id']
        if pid in CHECKS and os.path.isdir('/verif/checks/' + pid.lower()):
            eng, tech, text, note, ref = CHECKS[pid]
            if pid not in ("C19", "C20"):
                tech += "; call histories of depth 2 and 3 (C17: to the fix-point) explored from the library's initial state (state reset injected with go build -overlay), with the differential oracle 'outcome independent of the earlier call'"
            if pid == "C19":
                tech = "stateless model checking: controlled cooperative scheduler (sync, sync/atomic, math/rand, math/rand/v2, crypto/rand of package uu redirected to shims with go build -overlay), iterative context bounding over all harnesses (preemption bound 0, 1, 2, ... then unbounded) x scripted generator answers; free-running -race runs as a supplement"
            checks.append({
                "property_id": pid,
                "quick_cmd": "./run %s quick" % pid,
                "thorough_cmd": "./run %s thorough" % pid,
                "evidence_file": "/verif/evidence/%s.json" % pid,
                "replay_cmd_template": "./run %s quick --replay {path}" % pid,
                "engine": eng,
                "level_claimed": {"category": "model_checking", "text": text, "design_ref": "DESIGN.md section " + ref},
                "level_note": note,
                "technique": tech,
            })
        else:
            na.append({"property_id": pid, "reason": NOT_YET})
    m = {
        "version": 1,
        "setup_cmd": "./setup.sh",
        "hooks": {
            "guard": "verif",
            "enable": "no hook is committed to /repo. Every check is built by tools/build_check.sh: tools/ovgen reads /repo's working tree at check time and writes a `go build -overlay` file in which the library files that declare unexported package-level variables (or init functions) are replaced by copies with an appended function that re-initialises those variables, plus <pkg>/verif_hooks.go (//go:build verif) exporting VerifReset(); the check is then built with `go build -tags verif -overlay <generated json>` and `replace go.lstv.dev/util => /repo`. For C19 the overlay additionally redirects package uu's sync, sync/atomic, math/rand, math/rand/v2 and crypto/rand imports to the scheduler / scripted-generator shims in /verif/overlay/verifsync (virtual package go.lstv.dev/util/verifsync). /repo itself is untouched; with the tag off (plain `go test`) none of this exists.",
            "baseline_off_cmd": "cd /repo && GOFLAGS=-mod=mod GOPROXY=off GOSUMDB=off GOTOOLCHAIN=local go test -vet=off -count=1 ./...",
            "source_commits": [],
            "add_only": True,
        },
        "engines": [
            {"name": "E1", "path": "/verif/mc/enum.go", "serves_properties": ["C01","C02","C03","C04","C05","C06","C07","C08","C09","C10","C11","C12","C13","C14","C15","C16","C18","C20"], "kind_free_text": ENG["E1"]},
            {"name": "E2", "path": "/verif/mc/enum.go", "serves_properties": ["C17"], "kind_free_text": ENG["E2"]},
            {"name": "E3", "path": "/verif/overlay/verifsync/sched.go", "serves_properties": ["C19"], "kind_free_text": ENG["E3"]},
        ],
        "checks": checks,
        "notes": "All checks execute the real code of /repo's working tree on every explored point; exit 0 = held, 1 = VIOLATION line, 2 = infrastructure error (no verdict). known_findings.json lists recorded genuine defects and fixed: entries.",
        "not_applicable": na,
    }
    json.dump(m, open('/verif/MANIFEST.json', 'w'), indent=1)
    print("checks:", len(checks), "not_applicable:", len(na))

if __name__ == '__main__':
    main()
