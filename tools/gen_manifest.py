#!/usr/bin/env python3
"""Generates /verif/MANIFEST.json from the table below (keeps it schema-valid at all times)."""
import json, os

ENG = {
    "E1": "bounded-exhaustive choice-tree / odometer enumeration of the real implementation against a reference model",
    "E2": "explicit-state breadth-first search over receiver histories / case lists, transitions call the real implementation",
    "E3": "controlled cooperative scheduler + sync shim (go build -overlay), preemption-bounded DFS over all interleavings",
}

# id -> (engine, technique, level text, level note, design ref)
CHECKS = {
 "C01": ("E1", "bounded-exhaustive enumeration (all 3,652,425 dates x formats x output/input paths) vs ordinal-calendar reference model",
         "Every date of years 0000-9999 and a stated set of 5-9 digit years is pushed through every output path and every input path of the real code and compared with a digit-by-digit reference rendering; complete for the 4-digit range, so no calendar date in it can violate the round trip.",
         "Trusted: Go toolchain/stdlib (fmt, encoding/json, encoding/xml), /verif/oracle calendar model. Years > 9999: only the stated year set (all their days) under MaxInputLength in {0,10..15}.", "3/C01"),
}

NOT_YET = "check not built yet in this session (planned, see DESIGN.md section 3)"

def main():
    props = [json.loads(l) for l in open('/verif/properties.jsonl')]
    checks, na = [], []
    for p in props:
        pid = p['id']
        if pid in CHECKS and os.path.isdir('/verif/checks/' + pid.lower()):
            eng, tech, text, note, ref = CHECKS[pid]
            checks.append({
                "property_id": pid,
                "quick_cmd": "./run %s quick" % pid,
                "thorough_cmd": "./run %s thorough" % pid,
                "evidence_file": "/verif/evidence/%s.json" % pid,
                "replay_cmd_template": "./run %s quick --replay {path}" % pid,
                "engine": eng,
                "level_claimed": {"category": "model_checking", "text": text, "design_ref": "DESIGN.md section " + ref},
                "level_note": note,
                "technique": tech,
            })
        else:
            na.append({"property_id": pid, "reason": NOT_YET})
    m = {
        "version": 1,
        "setup_cmd": "./setup.sh",
        "hooks": {
            "guard": "verif",
            "enable": "no hook is committed to /repo: checks build with `replace go.lstv.dev/util => /repo`; C19 additionally builds with `go build -tags verif -overlay <generated json>` which rewrites uu's `sync` import to a scheduler shim and adds uu/verif_hooks.go (both generated from /repo's working tree at check time, /repo untouched)",
            "baseline_off_cmd": "cd /repo && GOFLAGS=-mod=mod GOPROXY=off GOSUMDB=off GOTOOLCHAIN=local go test -vet=off -count=1 ./...",
            "source_commits": [],
            "add_only": True,
        },
        "engines": [
            {"name": "E1", "path": "/verif/mc/enum.go", "serves_properties": ["C01","C02","C03","C04","C05","C06","C07","C08","C09","C10","C11","C12","C13","C14","C15","C16","C18"], "kind_free_text": ENG["E1"]},
            {"name": "E2", "path": "/verif/mc/enum.go", "serves_properties": ["C17","C20"], "kind_free_text": ENG["E2"]},
            {"name": "E3", "path": "/verif/mc/sched", "serves_properties": ["C19"], "kind_free_text": ENG["E3"]},
        ],
        "checks": checks,
        "notes": "All checks execute the real code of /repo's working tree on every explored point; exit 0 = held, 1 = VIOLATION line, 2 = infrastructure error (no verdict). known_findings.json lists recorded genuine defects and fixed: entries.",
        "not_applicable": na,
    }
    json.dump(m, open('/verif/MANIFEST.json', 'w'), indent=1)
    print("checks:", len(checks), "not_applicable:", len(na))

if __name__ == '__main__':
    main()
