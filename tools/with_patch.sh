#!/bin/bash
# usage: tools/with_patch.sh <patch.diff> <tier> <ID>...   (applies the patch to /repo, runs the checks, always reverts)
# prints one line per check: <ID> exit=<code> [first VIOLATION line]
set -u
patch=$(readlink -f "$1"); tier=$2; shift 2
cd /repo || exit 2
if [ -n "$(git status --porcelain)" ]; then echo "/repo working tree not clean" >&2; exit 2; fi
trap 'git -C /repo checkout -q -- . ; git -C /repo clean -fdq' EXIT
if ! git apply "$patch"; then echo "patch does not apply" >&2; exit 2; fi
if [ "${RUN_REPO_TESTS:-0}" = 1 ]; then
  (cd /repo && GOFLAGS=-mod=mod GOPROXY=off GOSUMDB=off GOTOOLCHAIN=local go test -vet=off -count=1 ./... 2>&1 | grep -v '^ok' | head -20; echo "repo tests exit=${PIPESTATUS[0]}")
fi
cd /verif
mkdir -p .work/patched && cp known_findings.json .work/patched/
for id in "$@"; do
  out=$(VERIF_ROOT=/verif/.work/patched ./run "$id" "$tier" 2>&1); rc=$?
  echo "$id exit=$rc $(echo "$out" | grep -m1 -E 'VIOLATION|INFRASTRUCTURE' )"
  [ "${VERBOSE:-0}" = 1 ] && echo "$out" | head -12
done
exit 0
