#!/bin/bash
# usage: tools/eval_benign.sh <candidate dir with patch.diff meta.json> [check ids... | all]
# A "benign" candidate changes the library but is claimed to keep the property true.
# 1. confirms in a scratch worktree that the patch applies and the repository suite passes with it
# 2. applies it to /repo, runs the given checks (default: the property named in meta.json) at quick tier, reverts.
# Every exit != 0 must then be classified by hand: the candidate really breaks that property, or the check is over-strict.
set -u
export GOFLAGS=-mod=mod GOPROXY=off GOSUMDB=off GOTOOLCHAIN=local
d=$(readlink -f "$1"); shift
prop=$(python3 -c "import json;print(json.load(open('$d/meta.json'))['property'])")
ids="$*"; [ -z "$ids" ] && ids=$prop
[ "$ids" = all ] && ids="C01 C02 C03 C04 C05 C06 C07 C08 C09 C10 C11 C12 C13 C14 C15 C16 C17 C18 C19 C20"
wt=/tmp/ev/$(basename "$(dirname "$d")")_$(basename "$d")_$$
mkdir -p /tmp/ev
git -C /repo worktree add -q --detach "$wt" HEAD || exit 2
cleanup() { git -C /repo worktree remove --force "$wt" 2>/dev/null; rm -rf "$wt"; }
trap cleanup EXIT
if ! git -C "$wt" apply "$d/patch.diff"; then echo "RESULT $d patch_does_not_apply"; exit 2; fi
(cd "$wt" && go test -vet=off -count=1 ./... >/tmp/ev/out3.$$ 2>&1); suite=$?
echo "CONFIRM $d suite_with_change_exit=$suite"
[ $suite != 0 ] && grep -v '^ok' /tmp/ev/out3.$$ | head -8
rm -f /tmp/ev/out3.$$
cleanup; trap - EXIT
[ $suite = 0 ] && /verif/tools/with_patch.sh "$d/patch.diff" quick $ids
