#!/bin/bash
# usage: tools/eval_seeded.sh <candidate dir with patch.diff demo_test.go meta.json> [check ids...]
# 1. confirms the candidate in a scratch worktree (demo passes without, suite passes with, demo fails with the change)
# 2. applies it to /repo, runs the given checks (default: the property named in meta.json) at quick tier, reverts.
set -u
export GOFLAGS=-mod=mod GOPROXY=off GOSUMDB=off GOTOOLCHAIN=local
d=$(readlink -f "$1"); shift
prop=$(python3 -c "import json;print(json.load(open('$d/meta.json'))['property'])")
ids="$*"; [ -z "$ids" ] && ids=$prop
place=$(head -5 "$d/demo_test.go" | grep -m1 -oE 'place in: *[A-Za-z0-9_/.-]+' | sed 's/place in: *//')
[ -z "$place" ] && { echo "no 'place in:' line in demo"; exit 2; }
wt=/tmp/ev/$(basename "$(dirname "$d")")_$(basename "$d")_$$
mkdir -p /tmp/ev
git -C /repo worktree add -q --detach "$wt" HEAD || exit 2
cleanup() { git -C /repo worktree remove --force "$wt" 2>/dev/null; rm -rf "$wt"; }
trap cleanup EXIT
cp "$d/demo_test.go" "$wt/$place/zz_demo_seed_test.go"
names=$(grep -oE '^func (Test|Example)[A-Za-z0-9_]*' "$d/demo_test.go" | sed 's/^func //' | paste -sd'|')
# only the demo's own tests: the library's tests leave package globals (Formatter/Parser stubs) installed
(cd "$wt/$place" && timeout 300 go test -vet=off -count=1 -run "^($names)\$" . >/tmp/ev/out1.$$ 2>&1); without=$?
if ! git -C "$wt" apply "$d/patch.diff"; then echo "RESULT $d patch_does_not_apply"; exit 2; fi
(cd "$wt/$place" && timeout 300 go test -vet=off -count=1 -run "^($names)\$" . >/tmp/ev/out2.$$ 2>&1); with=$?
rm -f "$wt/$place/zz_demo_seed_test.go"
(cd "$wt" && go test -vet=off -count=1 ./... >/tmp/ev/out3.$$ 2>&1); suite=$?
echo "CONFIRM $d demo_without_change_exit=$without demo_with_change_exit=$with suite_with_change_exit=$suite"
[ $suite != 0 ] && grep -v '^ok' /tmp/ev/out3.$$ | head -8
[ $without != 0 ] && head -8 /tmp/ev/out1.$$
rm -f /tmp/ev/out?.$$
cleanup; trap - EXIT
if [ $without = 0 ] && [ $with != 0 ] && [ $suite = 0 ]; then
  /verif/tools/with_patch.sh "$d/patch.diff" quick $ids
else
  echo "NOT-CONFIRMED $d"
fi
