#!/bin/bash
# Builds one check against the repository's working tree with the verification hooks injected through `go build -overlay`
# (the repository itself is untouched): tools/ovgen generates, from the tree as it is now, copies of the library files with a
# VerifReset() per package (see tools/ovgen/main.go); for C19 the sync / rand imports of package uu are redirected to the shims.
# usage: tools/build_check.sh <check dir name, e.g. c03> <output binary>
set -eu
lc=$1
out=$(readlink -f "$2" 2>/dev/null || echo "$2")
case "$out" in /*) ;; *) out="$PWD/$out";; esac
V=${VERIF_SRC:-/verif}
export GOFLAGS=-mod=mod GOPROXY=off GOSUMDB=off GOTOOLCHAIN=local
mkdir -p $V/.work $V/.bin
W=$(mktemp -d $V/.work/ov.XXXXXX)
trap 'rm -rf "$W"' EXIT
cd $V
go build -o $V/.bin/ovgen ./tools/ovgen
shim=""
[ "$lc" = c19 ] && shim="-shim uu"
$V/.bin/ovgen $shim "$W" "$W/overlay.json"
go build -tags verif -overlay "$W/overlay.json" -o "$out" ./checks/$lc
if [ "$lc" = c19 ] && [ "${C19_RACE:-1}" = 1 ]; then
  # free-running race-detector supplement (plain build, real sync, no overlay)
  go build -race -o "$out.race" ./checks/x19race
fi
