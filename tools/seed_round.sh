#!/bin/bash
# usage: tools/seed_round.sh <round tag, e.g. r3> <ids like 01 02 ...>   prepares worktrees under /tmp/wt and prompts under /tmp/wtout
tag=$1; shift
mkdir -p /tmp/wt /tmp/wtout
for i in "$@"; do
  git -C /repo worktree add -q --detach /tmp/wt/${tag}c$i HEAD && mkdir -p /tmp/wtout/${tag}c$i
  python3 - "$tag" "$i" <<'PY'
import sys, json, glob
tag,i=sys.argv[1],sys.argv[2]
import os
t=open('/verif/tools/seed_prompt6.tmpl' if tag.startswith('b2') else '/verif/tools/seed_prompt5.tmpl' if tag.startswith('b') else '/verif/tools/seed_prompt4.tmpl' if tag>='r4' else '/verif/tools/seed_prompt.tmpl').read()
props={json.loads(l)['id']:json.loads(l) for l in open('/verif/properties.jsonl')}
p=json.dumps(props['C'+i],indent=1)
prior=[]
for f in sorted(glob.glob('/verif/seeded/C%s/*/meta.json'%i)):
    m=json.load(open(f)); prior.append(' - '+m.get('summary',''))
extra=''
if i=='19':
    extra='\nNote for this property: a change that needs a particular goroutine interleaving is welcome; the demo may then use many goroutines/iterations, the Go race detector (go test -race) or runtime.Gosched to make the failure likely, but say so in meta.json.\n'
open('/tmp/wtout/%sc%s.prompt.txt'%(tag,i),'w').write(t.replace('@ID@',tag+'c'+i).replace('@IDU@','C'+i).replace('@PROPERTY@',p+extra).replace('@PRIOR@','\n'.join(prior)))
PY
done
ls /tmp/wtout/*.prompt.txt | wc -l
