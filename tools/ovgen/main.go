// ovgen prepares the `go build -overlay` file with which every check is built against the repository's working tree
// (nothing is written into the repository):
//
//   - For every library package (date, roman, sem, size, uu, test, internal) each non-test file that declares unexported
//     package-level variables, or an init function, is replaced by a copy to which one function per variable declaration is
//     appended that re-runs its initialiser, and the package gets verif_hooks.go (//go:build verif) with VerifReset() calling
//     them in the order the Go specification prescribes for package initialisation (dependency order, then the init
//     functions in file order). Exported variables (the documented configuration:
//     MaxInputLength, Formatter, ...) and error values built with errors.New / fmt.Errorf are left alone: configuration is
//     installed by the harness, sentinels must keep their identity. With VerifReset the harness can put the library's
//     hidden state (lazily built tables, caches, pools, once-only initialisation - whatever a change adds) back to what it
//     is in a fresh process, so that call histories can be explored from the initial state.
//   - With -shim <pkg> (C19: uu) the "sync", "sync/atomic", "math/rand", "math/rand/v2" and "crypto/rand" imports of that
//     package are redirected to the scheduler / scripted-generator shims under <module>/verifsync, and for that package
//     exported variables are re-initialised as well (every explored execution starts from the package's initial state).
//
// Nothing depends on the names of unexported identifiers.
//
// usage: ovgen [-shim pkg] <work dir> <overlay json path>
package main

import (
	"bytes"
	"encoding/json"
	"flag"
	"fmt"
	"go/ast"
	"go/parser"
	"go/printer"
	"go/token"
	"os"
	"path/filepath"
	"sort"
	"strconv"
	"strings"
)

// The tree under test and the verification sources; the defaults are what every registered command uses. The environment
// variables exist for tools/pc_eval.sh / pc_round.py only, which evaluate a changed scratch copy without touching /repo.
var (
	repoRoot = envOr("VERIF_REPO", "/repo")
	overlayV = envOr("VERIF_SRC", "/verif") + "/overlay"
)

const module = "go.lstv.dev/util"

var shims = map[string]string{
	"sync":         module + "/verifsync",
	"sync/atomic":  module + "/verifsync/atomic",
	"math/rand":    module + "/verifsync/rand",
	"math/rand/v2": module + "/verifsync/rand2",
	"crypto/rand":  module + "/verifsync/crand",
}
var shimNames = map[string]string{"sync": "sync", "sync/atomic": "atomic", "math/rand": "rand", "math/rand/v2": "rand", "crypto/rand": "rand"}

func envOr(k, d string) string {
	if v := os.Getenv(k); v != "" {
		return v
	}
	return d
}

func die(format string, a ...any) {
	fmt.Fprintf(os.Stderr, "harness cannot bind: "+format+"\n", a...)
	os.Exit(3)
}

func src(fset *token.FileSet, n ast.Node) string {
	var b bytes.Buffer
	printer.Fprint(&b, fset, n)
	return b.String()
}

// idents collects every identifier name that occurs in n (an over-approximation of what the code refers to).
func idents(n ast.Node) map[string]bool {
	out := map[string]bool{}
	ast.Inspect(n, func(x ast.Node) bool {
		if id, ok := x.(*ast.Ident); ok {
			out[id.Name] = true
		}
		return true
	})
	return out
}

func isSentinel(s string) bool {
	s = strings.TrimSpace(s)
	return strings.HasPrefix(s, "errors.New(") || strings.HasPrefix(s, "fmt.Errorf(")
}

func main() {
	shim := flag.String("shim", "", "package whose sync / rand imports are redirected to the harness shims")
	flag.Parse()
	if flag.NArg() != 2 {
		die("usage: ovgen [-shim pkg] <work dir> <overlay json>")
	}
	work, out := flag.Arg(0), flag.Arg(1)
	replace := map[string]string{}
	entries, err := os.ReadDir(repoRoot)
	if err != nil {
		die("%v", err)
	}
	var bound []string
	for _, e := range entries {
		if !e.IsDir() || strings.HasPrefix(e.Name(), ".") || e.Name() == "verifsync" {
			continue
		}
		pkg := e.Name()
		files, _ := filepath.Glob(filepath.Join(repoRoot, pkg, "*.go"))
		sort.Strings(files)
		pkgName, importsInternal := "", false
		any, foreign := false, false
		type item struct {
			fn    string          // name of the generated function re-running the initialiser(s) of one var spec
			names []string        // variables it assigns
			refs  map[string]bool // identifiers its initialiser mentions (package-level variables and functions)
		}
		var items []*item
		var initCalls []string
		funcRefs := map[string]map[string]bool{} // package-level function / method name -> identifiers its body mentions
		type parsed struct {
			path string
			fset *token.FileSet
			af   *ast.File
			add  []string // generated source appended to the copy
			chg  bool
		}
		var pfs []*parsed
		for i, f := range files {
			if strings.HasSuffix(f, "_test.go") || filepath.Base(f) == "verif_hooks.go" {
				continue
			}
			any = true
			fset := token.NewFileSet()
			af, err := parser.ParseFile(fset, f, nil, parser.ParseComments)
			if err != nil {
				die("%s does not parse: %v", f, err)
			}
			pf := &parsed{path: f, fset: fset, af: af}
			pfs = append(pfs, pf)
			pkgName = af.Name.Name
			for _, im := range af.Imports {
				p, _ := strconv.Unquote(im.Path.Value)
				if p == module+"/internal" {
					importsInternal = true
				}
				if to, ok := shims[p]; ok && pkg == *shim {
					bound = append(bound, p)
					im.Path.Value = strconv.Quote(to)
					if im.Name == nil {
						im.Name = ast.NewIdent(shimNames[p])
					}
					pf.chg = true
				}
			}
			if pkg == *shim {
				ast.Inspect(af, func(n ast.Node) bool {
					switch x := n.(type) {
					case *ast.GoStmt:
						foreign = true
					case *ast.SelectorExpr:
						switch x.Sel.Name {
						case "AfterFunc", "NewTimer", "NewTicker", "Tick", "Notify":
							foreign = true
						}
					}
					return true
				})
			}
			for _, d := range af.Decls {
				switch d := d.(type) {
				case *ast.FuncDecl:
					if d.Recv == nil && d.Name.Name == "init" { // init functions are re-run by the reset (they may fill tables)
						name := fmt.Sprintf("verifInit%d_%d", i, len(initCalls))
						d.Name.Name = name
						initCalls = append(initCalls, name)
						pf.add = append(pf.add, fmt.Sprintf("func init() { %s() }", name))
						pf.chg = true
					}
					if d.Body != nil {
						r := idents(d.Body)
						if old := funcRefs[d.Name.Name]; old != nil { // methods of different types sharing a name: union
							for k := range old {
								r[k] = true
							}
						}
						funcRefs[d.Name.Name] = r
					}
				case *ast.GenDecl:
					if d.Tok != token.VAR {
						continue
					}
					for _, sp := range d.Specs {
						vs := sp.(*ast.ValueSpec)
						var names []string
						for _, n := range vs.Names {
							names = append(names, n.Name)
						}
						var stmts []string
						refs := map[string]bool{}
						switch {
						case len(vs.Values) == len(vs.Names):
							for k, n := range names {
								v := src(fset, vs.Values[k])
								if n != "_" && (!ast.IsExported(n) || pkg == *shim) && !isSentinel(v) {
									stmts = append(stmts, fmt.Sprintf("\t%s = %s", n, v))
									for id := range idents(vs.Values[k]) {
										refs[id] = true
									}
								}
							}
						case len(vs.Values) == 1: // a, b = f()
							keep := pkg == *shim
							for _, n := range names {
								if !ast.IsExported(n) && n != "_" {
									keep = true
								}
							}
							if keep {
								stmts = append(stmts, fmt.Sprintf("\t%s = %s", strings.Join(names, ", "), src(fset, vs.Values[0])))
								refs = idents(vs.Values[0])
							}
						case len(vs.Values) == 0 && vs.Type != nil:
							for _, n := range names {
								if n != "_" && (!ast.IsExported(n) || pkg == *shim) {
									stmts = append(stmts, fmt.Sprintf("\t%s = *new(%s)", n, src(fset, vs.Type)))
								}
							}
						}
						if len(stmts) == 0 {
							continue
						}
						it := &item{fn: fmt.Sprintf("verifResetVar%d_%d", i, len(items)), names: names, refs: refs}
						items = append(items, it)
						pf.add = append(pf.add, fmt.Sprintf("// %s re-runs the initialiser of %s (generated for the verification harness).\nfunc %s() {\n%s\n}", it.fn, strings.Join(names, ", "), it.fn, strings.Join(stmts, "\n")))
						pf.chg = true
					}
				}
			}
		}
		for _, pf := range pfs {
			if !pf.chg {
				continue
			}
			var buf bytes.Buffer
			if err := printer.Fprint(&buf, pf.fset, pf.af); err != nil {
				die("cannot print %s: %v", pf.path, err)
			}
			for _, a := range pf.add {
				buf.WriteString("\n" + a + "\n")
			}
			dst := filepath.Join(work, pkg, filepath.Base(pf.path))
			os.MkdirAll(filepath.Dir(dst), 0o755)
			if err := os.WriteFile(dst, buf.Bytes(), 0o644); err != nil {
				die("%v", err)
			}
			replace[pf.path] = dst
		}
		// Order the re-initialisations the way the Go specification orders package initialisation: repeatedly the earliest
		// variable in declaration order whose initialiser does not depend (directly or through the functions it mentions)
		// on a variable that has not been re-initialised yet.
		owner := map[string]*item{}
		for _, it := range items {
			for _, n := range it.names {
				owner[n] = it
			}
		}
		deps := func(it *item) map[*item]bool {
			out := map[*item]bool{}
			seenFn := map[string]bool{}
			var visit func(ids map[string]bool)
			visit = func(ids map[string]bool) {
				for id := range ids {
					if o := owner[id]; o != nil && o != it {
						out[o] = true
					}
					if r, ok := funcRefs[id]; ok && !seenFn[id] {
						seenFn[id] = true
						visit(r)
					}
				}
			}
			visit(it.refs)
			return out
		}
		var resetFuncs []string
		done := map[*item]bool{}
		for len(done) < len(items) {
			progressed := false
			for _, it := range items {
				if done[it] {
					continue
				}
				ready := true
				for d := range deps(it) {
					if !done[d] {
						ready = false
					}
				}
				if ready {
					done[it] = true
					resetFuncs = append(resetFuncs, it.fn)
					progressed = true
					break
				}
			}
			if !progressed { // a cycle through functions (over-approximated references): keep declaration order for the rest
				for _, it := range items {
					if !done[it] {
						done[it] = true
						resetFuncs = append(resetFuncs, it.fn)
					}
				}
			}
		}
		resetFuncs = append(resetFuncs, initCalls...)
		if !any || pkgName == "main" {
			continue
		}
		hooks := "//go:build verif\n\npackage " + pkgName + "\n\n"
		if importsInternal && pkg != "internal" {
			hooks += "import \"" + module + "/internal\"\n"
		}
		if pkg == *shim && foreign {
			hooks += "import verifsched \"" + module + "/verifsync\"\n"
		}
		hooks += "\n"
		if pkg == *shim && foreign {
			hooks += "func init() { verifsched.ForeignGoroutines = true } // this package starts goroutines or timers of its own\n\n"
		}
		hooks += "// VerifReset puts the hidden package-level state of this package back to what it is in a fresh process (harness seam, injected through -overlay only).\nfunc VerifReset() {\n"
		if importsInternal && pkg != "internal" {
			hooks += "\tinternal.VerifReset()\n"
		}
		for _, fn := range resetFuncs {
			hooks += "\t" + fn + "()\n"
		}
		hooks += "}\n"
		if pkg == *shim {
			sort.Strings(bound)
			hooks += "\n// VerifBinding lists the imports of this package that were redirected to the harness shims.\nconst VerifBinding = " + strconv.Quote(strings.Join(uniq(bound), ",")) + "\n"
		}
		hp := filepath.Join(work, pkg, "verif_hooks.go")
		os.MkdirAll(filepath.Dir(hp), 0o755)
		if err := os.WriteFile(hp, []byte(hooks), 0o644); err != nil {
			die("%v", err)
		}
		replace[filepath.Join(repoRoot, pkg, "verif_hooks.go")] = hp
	}
	if *shim != "" {
		for _, f := range []string{"sched.go", "extra.go", "atomic/atomic.go", "rand/rand.go", "rand2/rand.go", "crand/rand.go"} {
			replace[repoRoot+"/verifsync/"+f] = overlayV + "/verifsync/" + f
		}
	}
	b, _ := json.MarshalIndent(map[string]any{"Replace": replace}, "", " ")
	if err := os.WriteFile(out, b, 0o644); err != nil {
		die("%v", err)
	}
}

func uniq(s []string) []string {
	var o []string
	for i, x := range s {
		if i == 0 || x != s[i-1] {
			o = append(o, x)
		}
	}
	return o
}
