// ovgen prepares the `go build -overlay` file with which every check is built against the repository's working tree
// (nothing is written into the repository):
//
//   - For every library package (date, roman, sem, size, uu, test, internal) each non-test file that declares unexported
//     package-level variables, or an init function, is replaced by a copy to which a function is appended that
//     re-initialises those variables (re-running their initialisers; init functions are re-run too), and the package gets
//     verif_hooks.go (//go:build verif) with VerifReset() calling them. Exported variables (the documented configuration:
//     MaxInputLength, Formatter, ...) and error values built with errors.New / fmt.Errorf are left alone: configuration is
//     installed by the harness, sentinels must keep their identity. With VerifReset the harness can put the library's
//     hidden state (lazily built tables, caches, pools, once-only initialisation - whatever a change adds) back to what it
//     is in a fresh process, so that call histories can be explored from the initial state.
//   - With -shim <pkg> (C19: uu) the "sync", "sync/atomic", "math/rand", "math/rand/v2" and "crypto/rand" imports of that
//     package are redirected to the scheduler / scripted-generator shims under <module>/verifsync, and for that package
//     exported variables are re-initialised as well (every explored execution starts from the package's initial state).
//
// Nothing depends on the names of unexported identifiers.
//
// usage: ovgen [-shim pkg] <work dir> <overlay json path>
package main

import (
	"bytes"
	"encoding/json"
	"flag"
	"fmt"
	"go/ast"
	"go/parser"
	"go/printer"
	"go/token"
	"os"
	"path/filepath"
	"sort"
	"strconv"
	"strings"
)

// The tree under test and the verification sources; the defaults are what every registered command uses. The environment
// variables exist for tools/pc_eval.sh / pc_round.py only, which evaluate a changed scratch copy without touching /repo.
var (
	repoRoot = envOr("VERIF_REPO", "/repo")
	overlayV = envOr("VERIF_SRC", "/verif") + "/overlay"
)

const module = "go.lstv.dev/util"

var shims = map[string]string{
	"sync":         module + "/verifsync",
	"sync/atomic":  module + "/verifsync/atomic",
	"math/rand":    module + "/verifsync/rand",
	"math/rand/v2": module + "/verifsync/rand2",
	"crypto/rand":  module + "/verifsync/crand",
}
var shimNames = map[string]string{"sync": "sync", "sync/atomic": "atomic", "math/rand": "rand", "math/rand/v2": "rand", "crypto/rand": "rand"}

func envOr(k, d string) string {
	if v := os.Getenv(k); v != "" {
		return v
	}
	return d
}

func die(format string, a ...any) {
	fmt.Fprintf(os.Stderr, "harness cannot bind: "+format+"\n", a...)
	os.Exit(3)
}

func src(fset *token.FileSet, n ast.Node) string {
	var b bytes.Buffer
	printer.Fprint(&b, fset, n)
	return b.String()
}

func isSentinel(s string) bool {
	s = strings.TrimSpace(s)
	return strings.HasPrefix(s, "errors.New(") || strings.HasPrefix(s, "fmt.Errorf(")
}

func main() {
	shim := flag.String("shim", "", "package whose sync / rand imports are redirected to the harness shims")
	flag.Parse()
	if flag.NArg() != 2 {
		die("usage: ovgen [-shim pkg] <work dir> <overlay json>")
	}
	work, out := flag.Arg(0), flag.Arg(1)
	replace := map[string]string{}
	entries, err := os.ReadDir(repoRoot)
	if err != nil {
		die("%v", err)
	}
	var bound []string
	for _, e := range entries {
		if !e.IsDir() || strings.HasPrefix(e.Name(), ".") || e.Name() == "verifsync" {
			continue
		}
		pkg := e.Name()
		files, _ := filepath.Glob(filepath.Join(repoRoot, pkg, "*.go"))
		sort.Strings(files)
		var resetFuncs []string
		pkgName, importsInternal := "", false
		any := false
		for i, f := range files {
			if strings.HasSuffix(f, "_test.go") || filepath.Base(f) == "verif_hooks.go" {
				continue
			}
			any = true
			fset := token.NewFileSet()
			af, err := parser.ParseFile(fset, f, nil, parser.ParseComments)
			if err != nil {
				die("%s does not parse: %v", f, err)
			}
			pkgName = af.Name.Name
			changed := false
			for _, im := range af.Imports {
				p, _ := strconv.Unquote(im.Path.Value)
				if p == module+"/internal" {
					importsInternal = true
				}
				if to, ok := shims[p]; ok && pkg == *shim {
					bound = append(bound, p)
					im.Path.Value = strconv.Quote(to)
					if im.Name == nil {
						im.Name = ast.NewIdent(shimNames[p])
					}
					changed = true
				}
			}
			var stmts []string
			for _, d := range af.Decls {
				switch d := d.(type) {
				case *ast.FuncDecl:
					if d.Recv == nil && d.Name.Name == "init" { // init functions are re-run by the reset (they may fill tables)
						name := fmt.Sprintf("verifInit%d_%d", i, len(stmts))
						d.Name.Name = name
						stmts = append(stmts, "\t"+name+"()")
						changed = true
					}
				case *ast.GenDecl:
					if d.Tok != token.VAR {
						continue
					}
					for _, sp := range d.Specs {
						vs := sp.(*ast.ValueSpec)
						var names []string
						keep := false
						for _, n := range vs.Names {
							names = append(names, n.Name)
							if !ast.IsExported(n.Name) || pkg == *shim {
								keep = true
							}
						}
						if !keep {
							continue
						}
						switch {
						case len(vs.Values) == len(vs.Names):
							for k, n := range names {
								v := src(fset, vs.Values[k])
								if n != "_" && (!ast.IsExported(n) || pkg == *shim) && !isSentinel(v) {
									stmts = append(stmts, fmt.Sprintf("\t%s = %s", n, v))
								}
							}
						case len(vs.Values) == 1: // a, b = f()
							stmts = append(stmts, fmt.Sprintf("\t%s = %s", strings.Join(names, ", "), src(fset, vs.Values[0])))
						case len(vs.Values) == 0 && vs.Type != nil:
							for _, n := range names {
								if n != "_" && (!ast.IsExported(n) || pkg == *shim) {
									stmts = append(stmts, fmt.Sprintf("\t%s = *new(%s)", n, src(fset, vs.Type)))
								}
							}
						}
					}
				}
			}
			if len(stmts) == 0 && !changed {
				continue
			}
			// the init functions renamed above still have to run at program start
			var buf bytes.Buffer
			if err := printer.Fprint(&buf, fset, af); err != nil {
				die("cannot print %s: %v", f, err)
			}
			var inits []string
			for _, s := range stmts {
				if strings.HasPrefix(s, "\tverifInit") {
					inits = append(inits, s)
				}
			}
			if len(inits) > 0 {
				fmt.Fprintf(&buf, "\nfunc init() {\n%s\n}\n", strings.Join(inits, "\n"))
			}
			if len(stmts) > 0 {
				fn := fmt.Sprintf("verifReset%d", i)
				resetFuncs = append(resetFuncs, fn)
				fmt.Fprintf(&buf, "\n// %s puts the package-level state declared in this file back to its initial value (generated for the verification harness).\nfunc %s() {\n%s\n}\n", fn, fn, strings.Join(stmts, "\n"))
			}
			dst := filepath.Join(work, pkg, filepath.Base(f))
			os.MkdirAll(filepath.Dir(dst), 0o755)
			if err := os.WriteFile(dst, buf.Bytes(), 0o644); err != nil {
				die("%v", err)
			}
			replace[f] = dst
		}
		if !any || pkgName == "main" {
			continue
		}
		hooks := "//go:build verif\n\npackage " + pkgName + "\n\n"
		if importsInternal && pkg != "internal" {
			hooks += "import \"" + module + "/internal\"\n\n"
		}
		hooks += "// VerifReset puts the hidden package-level state of this package back to what it is in a fresh process (harness seam, injected through -overlay only).\nfunc VerifReset() {\n"
		if importsInternal && pkg != "internal" {
			hooks += "\tinternal.VerifReset()\n"
		}
		for _, fn := range resetFuncs {
			hooks += "\t" + fn + "()\n"
		}
		hooks += "}\n"
		if pkg == *shim {
			sort.Strings(bound)
			hooks += "\n// VerifBinding lists the imports of this package that were redirected to the harness shims.\nconst VerifBinding = " + strconv.Quote(strings.Join(uniq(bound), ",")) + "\n"
		}
		hp := filepath.Join(work, pkg, "verif_hooks.go")
		os.MkdirAll(filepath.Dir(hp), 0o755)
		if err := os.WriteFile(hp, []byte(hooks), 0o644); err != nil {
			die("%v", err)
		}
		replace[filepath.Join(repoRoot, pkg, "verif_hooks.go")] = hp
	}
	if *shim != "" {
		for _, f := range []string{"sched.go", "extra.go", "atomic/atomic.go", "rand/rand.go", "rand2/rand.go", "crand/rand.go"} {
			replace[repoRoot+"/verifsync/"+f] = overlayV + "/verifsync/" + f
		}
	}
	b, _ := json.MarshalIndent(map[string]any{"Replace": replace}, "", " ")
	if err := os.WriteFile(out, b, 0o644); err != nil {
		die("%v", err)
	}
}

func uniq(s []string) []string {
	var o []string
	for i, x := range s {
		if i == 0 || x != s[i-1] {
			o = append(o, x)
		}
	}
	return o
}
