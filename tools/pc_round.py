#!/usr/bin/env python3
"""usage: tools/pc_round.py [-j N] [--benign] <candidate dir>...
Parallel triage of sub-agent candidates on scratch copies (never touches /repo; recorded results are re-run with
tools/eval_seeded.sh / tools/with_patch.sh on /repo itself). For each candidate: confirm (demo passes without the change, fails with
it, repository suite passes with it) in a scratch worktree, then run the quick tier of the property's check (or, with --benign,
of every check of the touched packages) on a scratch copy of the verification sources pointed at that worktree."""
import sys, os, json, re, subprocess, shutil, concurrent.futures as cf
ENV = dict(os.environ, GOFLAGS='-mod=mod', GOPROXY='off', GOSUMDB='off', GOTOOLCHAIN='local')
PK = {'date': 'C01 C07 C09 C11 C15 C16 C17 C18', 'roman': 'C02 C10 C16 C17 C18', 'sem': 'C03 C06 C14 C16 C17 C18', 'size': 'C04 C08 C12 C13 C16 C17 C18',
      'uu': 'C05 C16 C17 C18 C19', 'test': 'C20', 'internal': 'C01 C02 C03 C04 C05 C08 C09 C10 C12 C13 C16 C17 C18'}

NODEMO = False

def sh(cmd, cwd=None, timeout=900, env=ENV):
    try:
        p = subprocess.run(cmd, shell=True, cwd=cwd, env=env, stdout=subprocess.PIPE, stderr=subprocess.STDOUT, timeout=timeout, text=True, errors='replace')
        return p.returncode, p.stdout
    except subprocess.TimeoutExpired as e:
        return 124, 'timeout'

def one(args):
    slot, d, benign, workers = args
    d = os.path.realpath(d)
    base = '/tmp/pc/%ss%d' % (os.environ.get('PC_NS', ''), slot)
    sh('git -C /repo worktree remove --force %s/repo; rm -rf %s; git -C /repo worktree prune' % (base, base))
    os.makedirs(base)
    res = {'dir': d}
    try:
        meta = json.load(open(d + '/meta.json'))
        prop = meta['property']
        rc, out = sh('git -C /repo worktree add -q --detach %s/repo HEAD' % base)
        if rc: return dict(res, error='worktree: ' + out[-200:])
        repo = base + '/repo'
        demo = open(d + '/demo_test.go').read() if os.path.exists(d + '/demo_test.go') else ''
        m = re.search(r'place in: *([A-Za-z0-9_/.-]+)', demo[:400])
        names = '|'.join(re.findall(r'^func ((?:Test|Example)[A-Za-z0-9_]*)', demo, re.M))
        if m and names and not benign and not NODEMO:
            place = m.group(1).strip('/')
            shutil.copy(d + '/demo_test.go', '%s/%s/zz_demo_seed_test.go' % (repo, place))
            res['demo_without'], _ = sh("go test -vet=off -count=1 -run '^(%s)$' ." % names, cwd='%s/%s' % (repo, place), timeout=400)
        rc, out = sh('git apply %s/patch.diff' % d, cwd=repo)
        if rc: return dict(res, error='patch does not apply: ' + out[-200:])
        if m and names and not benign and not NODEMO:
            res['demo_with'], _ = sh("go test -vet=off -count=1 -run '^(%s)$' ." % names, cwd='%s/%s' % (repo, place), timeout=400)
            os.remove('%s/%s/zz_demo_seed_test.go' % (repo, place))
        res['suite_with'], out = (0, '') if NODEMO else sh('go test -vet=off -count=1 ./...', cwd=repo, timeout=600)
        if res['suite_with']: res['suite_out'] = '\n'.join(l for l in out.splitlines() if not l.startswith('ok'))[-400:]
        ids = [prop]
        if benign:
            pk = set(re.findall(r'^\+\+\+ b/([a-z]+)/', open(d + '/patch.diff').read(), re.M))
            ids = sorted(set(' '.join(PK.get(p, '') for p in pk).split()))
            if os.environ.get('PC_ONLY'): ids = [i for i in ids if i in os.environ['PC_ONLY'].split()]   # regression of the checks that changed
        v = base + '/verif'
        os.makedirs(v)
        sh('cd /verif && tar cf - go.mod go.sum run mc oracle libdefaults firstuse checks overlay known_findings.json tools/ovgen tools/build_check.sh | tar xf - -C %s' % v)
        sh("sed -i 's#=> /repo#=> %s#' %s/go.mod" % (repo, v))
        env = dict(ENV, VERIF_REPO=repo, VERIF_SRC=v, VERIF_ROOT=v, VERIF_WORKERS=str(workers), VERIF_BUDGET='6m')
        res['checks'] = {}
        for cid in ids:
            rc, out = sh('./run %s quick' % cid, cwd=v, env=env, timeout=1200)
            os.makedirs('/tmp/pc/logs', exist_ok=True)
            open('/tmp/pc/logs/%s_%s_%s.log' % (os.path.basename(os.path.dirname(d)), os.path.basename(d), cid), 'w').write(out)
            first = next((l for l in out.splitlines() if l.startswith('VIOLATION') or 'INFRASTRUCTURE' in l), '')
            kinds = [l.strip() for l in out.splitlines() if l.strip().startswith('probe=')][:2]
            res['checks'][cid] = {'exit': rc, 'line': first[:200], 'first': kinds}
        return res
    except Exception as e:
        return dict(res, error=repr(e))
    finally:
        sh('git -C /repo worktree remove --force %s/repo; rm -rf %s' % (base, base))

def main():
    a = sys.argv[1:]
    j, benign = 4, False
    global NODEMO
    if a and a[0] == '-j': j = int(a[1]); a = a[2:]
    if a and a[0] == '--benign': benign = True; a = a[1:]
    if a and a[0] == '--no-demo': NODEMO = True; a = a[1:]   # regression runs of stored (already confirmed) changes
    workers = max(2, 16 // j)
    import queue
    slots = queue.Queue()
    for i in range(j): slots.put(i)
    def run(d):
        s = slots.get()
        try: return one((s, d, benign, workers))
        finally: slots.put(s)
    with cf.ThreadPoolExecutor(j) as ex:
        for r in ex.map(run, a):
            tag = os.path.basename(os.path.dirname(r['dir'])) + '/' + os.path.basename(r['dir'])
            if 'error' in r: print('%-12s ERROR %s' % (tag, r['error'])); continue
            conf = ''
            if not benign:
                ok = NODEMO or (r.get('demo_without') == 0 and r.get('demo_with', 0) != 0 and r.get('suite_with') == 0)
                conf = 'CONFIRMED' if ok else 'NOT-CONFIRMED(without=%s with=%s suite=%s)' % (r.get('demo_without'), r.get('demo_with'), r.get('suite_with'))
            else:
                conf = 'suite=%s' % r.get('suite_with')
            cs = ' '.join('%s=%d' % (k, v['exit']) for k, v in r['checks'].items())
            print('%-12s %s %s' % (tag, conf, cs), flush=True)
            for k, v in r['checks'].items():
                if v['exit'] != 0 and (benign or True):
                    print('             %s: %s %s' % (k, v['line'][:120], ' | '.join(v['first'])[:260]), flush=True)
main()
