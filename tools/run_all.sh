#!/bin/bash
# usage: tools/run_all.sh <quick|thorough>   runs every registered check, prints id/exit/wall
cd /verif
tier=${1:-quick}
for id in $(python3 -c "import json;print(' '.join(c['property_id'] for c in json.load(open('MANIFEST.json'))['checks']))"); do
  s=$(date +%s.%N); out=$(./run $id $tier 2>&1); rc=$?; e=$(date +%s.%N)
  printf "%s exit=%d wall=%.1fs %s\n" $id $rc $(echo "$e - $s" | bc) "$(echo "$out" | grep -m1 -E 'VIOLATION|INFRA|KNOWN-FINDING' | cut -c1-150)"
done
