#!/usr/bin/env python3
"""usage: tools/results_round.py <tag, e.g. r9>  - prints the RESULTS.md table and miss list of one stored round from the meta.json files"""
import sys, json, glob, os
tag = sys.argv[1]
rows, misses, n, first = [], [], 0, 0
for f in sorted(glob.glob('seeded/C*/%sm[0-9]/meta.json' % tag)):
    m = json.load(open(f)); cid = f.split('/')[1]; k = f.split('/')[2][len(tag):]
    n += 1
    fr = m.get('first_run', 'detected')
    if fr == 'detected': first += 1; res = 'detected'
    elif m.get('detected_by', '').startswith('not detected'): res = 'NOT detected'
    else: res = 'missed at first, detected after strengthening'
    if fr != 'detected': misses.append('* **%s/%s%s** — %s. Now: %s' % (cid, tag, k, fr, m.get('detected_by')))
    cut = lambda s: (s or '').replace('|', '/').replace('\n', ' ')[:150]
    rows.append('| %s | %s%s | %s | %s | %s |' % (cid, tag, k, cut(m.get('summary')), cut(m.get('needs_to_manifest')), res))
print('First run: %d of %d detected. The others:\n' % (first, n))
print('\n'.join(misses))
print('\n| property | change | summary | needs to manifest | result |\n|---|---|---|---|---|')
print('\n'.join(rows))
