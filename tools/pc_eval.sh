#!/bin/bash
# usage: tools/pc_eval.sh <slot> <patch.diff> <ID>...
# Parallel triage helper (NOT the protocol used for recorded results, which is tools/with_patch.sh on /repo itself): builds a
# scratch copy of the repository (git worktree of /repo HEAD + the patch) and of the verification sources under /tmp/pc/<slot>,
# points the copy's go.mod at the scratch repository and runs the quick tier of the given checks there with
# VERIF_WORKERS=${PC_WORKERS:-4}. Several slots can run at the same time; /repo is never modified. Everything is removed afterwards.
set -u
slot=$1; patch=$(readlink -f "$2"); shift 2
export GOFLAGS=-mod=mod GOPROXY=off GOSUMDB=off GOTOOLCHAIN=local
base=/tmp/pc/$slot
rm -rf "$base"; git -C /repo worktree prune; mkdir -p "$base"
git -C /repo worktree add -q --detach "$base/repo" HEAD || exit 2
cleanup() { git -C /repo worktree remove --force "$base/repo" 2>/dev/null; rm -rf "$base"; }
trap cleanup EXIT
if ! git -C "$base/repo" apply "$patch"; then echo "patch does not apply"; exit 2; fi
mkdir -p "$base/verif"
(cd /verif && tar cf - go.mod go.sum run mc oracle libdefaults firstuse checks overlay known_findings.json tools/ovgen tools/build_check.sh) | tar xf - -C "$base/verif"
sed -i "s#=> /repo#=> $base/repo#" "$base/verif/go.mod"
cd "$base/verif"
for id in "$@"; do
  out=$(VERIF_REPO=$base/repo VERIF_SRC=$base/verif VERIF_ROOT=$base/verif VERIF_WORKERS=${PC_WORKERS:-4} VERIF_BUDGET=${PC_BUDGET:-6m} ./run "$id" quick 2>&1); rc=$?
  echo "$id exit=$rc $(echo "$out" | grep -m1 -E '^VIOLATION|INFRASTRUCTURE' | cut -c1-160)"
  [ "${VERBOSE:-0}" = 1 ] && echo "$out" | head -12
done
exit 0
