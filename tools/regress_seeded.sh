#!/bin/bash
# usage: tools/regress_seeded.sh <ID>...   re-runs every stored seeded change of the given properties against the property's quick
# check (patch applied to /repo and reverted each time) and lists the ones that are NOT reported (exit != 1).
cd /verif
for id in "$@"; do
  for d in seeded/$id/*/; do
    out=$(tools/with_patch.sh $d/patch.diff quick $id 2>&1 | tail -1)
    case "$out" in
      *"exit=1 "*VIOLATION*) echo "ok   $d" ;;
      *) echo "MISS $d $out" | cut -c1-250 ;;
    esac
  done
done
