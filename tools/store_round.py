#!/usr/bin/env python3
"""usage: tools/store_round.py <round number> <tag, e.g. r9> <results.json>
Copies confirmed sub-agent candidates from /tmp/wtout/<tag>cNN/m<k> to seeded/CNN/<tag>m<k>, adding what was run here and the outcome.
results.json: {"C14/m2": {"first_run": "...", "detected_by": "..."}}; candidates not listed were detected on the first run."""
import sys, os, json, glob, shutil
rnd, tag, resf = int(sys.argv[1]), sys.argv[2], sys.argv[3]
res = json.load(open(resf))
for d in sorted(glob.glob('/tmp/wtout/%sc[0-9][0-9]/m[0-9]' % tag)):
    cid = 'C' + os.path.basename(os.path.dirname(d))[len(tag) + 1:]
    k = os.path.basename(d)
    if not all(os.path.exists(d + '/' + f) for f in ('patch.diff', 'demo_test.go', 'meta.json')):
        print('incomplete', d); continue
    dst = 'seeded/%s/%s%s' % (cid, tag, k)
    os.makedirs(dst, exist_ok=True)
    for f in ('patch.diff', 'demo_test.go'):
        shutil.copy(d + '/' + f, dst + '/' + f)
    m = json.load(open(d + '/meta.json'))
    r = res.get('%s/%s' % (cid, k), {})
    m.update({'round': rnd,
              'confirmed_here': {'tool': 'tools/pc_round.py (scratch worktree of /repo HEAD)', 'demo_passes_without_change': True, 'demo_fails_with_change': True, 'repository_suite_passes_with_change': True},
              'what_was_run': ['tools/pc_round.py -j 6 <dir>   (scratch worktree: demo without the change, demo with it, repository suite with it, quick check of the property)'] + r.get('also_run', []),
              'detected_by': r.get('detected_by', 'quick check of %s' % cid),
              'first_run': r.get('first_run', 'detected')})
    json.dump(m, open(dst + '/meta.json', 'w'), indent=1)
    print('stored', dst)
