#!/bin/bash
# Builds every check binary offline (warms the Go build cache). Safe to re-run.
set -u
cd "$(dirname "$0")"
export GOFLAGS=-mod=mod GOPROXY=off GOSUMDB=off GOTOOLCHAIN=local
mkdir -p .bin .work evidence replays
rc=0
for d in checks/c*/; do
  lc=$(basename "$d")
  if [ -x "$d/build.sh" ]; then "$d/build.sh" ".bin/$lc" || rc=1
  else go build -o ".bin/$lc" "./$d" || rc=1; fi
done
exit $rc
