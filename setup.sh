#!/bin/bash
# Builds every check binary offline (warms the Go build cache). Safe to re-run.
set -u
cd "$(dirname "$0")"
export GOFLAGS=-mod=mod GOPROXY=off GOSUMDB=off GOTOOLCHAIN=local
mkdir -p .bin .work evidence replays
rc=0
for d in checks/c*/; do
  lc=$(basename "$d")
  tools/build_check.sh "$lc" ".bin/$lc" || rc=1
done
exit $rc
