package oracle

const hexLower = "0123456789abcdef"

// UUIDText renders the 128 bits (hi = most significant 64) as 8-4-4-4-12 lower-case hex, big endian.
func UUIDText(hi, lo uint64) string {
	out := make([]byte, 0, 36)
	for i := 0; i < 32; i++ {
		var nib uint64
		if i < 16 {
			nib = (hi >> uint(60-4*i)) & 0xf
		} else {
			nib = (lo >> uint(60-4*(i-16))) & 0xf
		}
		if i == 8 || i == 12 || i == 16 || i == 20 {
			out = append(out, '-')
		}
		out = append(out, hexLower[nib])
	}
	return string(out)
}

// UUID parse expectation classes.
const (
	UAccept = iota
	UReject
	URejectURNDisabled // a well-formed URN text while the URN form is disabled by rule
	UDontCare          // prefix differs from "urn:uuid:" only in the case of "uuid": accept (right value) or reject
)

// UUIDParse is the strict reference parser. disableURN / disableUpper are the two rules.
func UUIDParse(s []byte, disableURN, disableUpper bool) (cls int, hi, lo uint64) {
	body := s
	urn := false
	cls = UAccept
	switch len(s) {
	case 36:
	case 45:
		urn = true
		p := s[:9]
		low := make([]byte, 9)
		for i, c := range p {
			if c >= 'A' && c <= 'Z' {
				c += 'a' - 'A'
			}
			low[i] = c
		}
		if string(low) != "urn:uuid:" {
			return UReject, 0, 0
		}
		if string(p[3:]) != ":uuid:" {
			cls = UDontCare
		}
		body = s[9:]
	default:
		return UReject, 0, 0
	}
	n := 0
	for i, c := range body {
		if i == 8 || i == 13 || i == 18 || i == 23 {
			if c != '-' {
				return UReject, 0, 0
			}
			continue
		}
		var v uint64
		switch {
		case c >= '0' && c <= '9':
			v = uint64(c - '0')
		case c >= 'a' && c <= 'f':
			v = uint64(c-'a') + 10
		case c >= 'A' && c <= 'F' && !disableUpper:
			v = uint64(c-'A') + 10
		default:
			return UReject, 0, 0
		}
		if n < 16 {
			hi = hi<<4 | v
		} else {
			lo = lo<<4 | v
		}
		n++
	}
	if urn && disableURN {
		if cls == UDontCare {
			return UReject, 0, 0
		}
		return URejectURNDisabled, 0, 0
	}
	return cls, hi, lo
}
