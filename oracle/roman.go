package oracle

// Roman format flags (bit values as documented by the library: 4, 40, 400, 9, 90, 900, lower case).
const (
	RLong4 = 1 << iota
	RLong40
	RLong400
	RLong9
	RLong90
	RLong900
	RLower
)

func romanDigit(buf []byte, d int, one, five, ten byte, long4, long9 bool) []byte {
	rep := func(c byte, n int) {
		for i := 0; i < n; i++ {
			buf = append(buf, c)
		}
	}
	switch {
	case d <= 3:
		rep(one, d)
	case d == 4:
		if long4 {
			rep(one, 4)
		} else {
			buf = append(buf, one, five)
		}
	case d <= 8:
		buf = append(buf, five)
		rep(one, d-5)
	default:
		if long9 {
			buf = append(buf, five)
			rep(one, 4)
		} else {
			buf = append(buf, one, ten)
		}
	}
	return buf
}

// RomanText renders n canonically: thousands as repeated M, every other
// decimal digit subtractive unless its long-form flag is set; RLower changes only letter case.
func RomanText(n uint64, flags int) string {
	var buf []byte
	for i := uint64(0); i < n/1000; i++ {
		buf = append(buf, 'M')
	}
	r := int(n % 1000)
	buf = romanDigit(buf, r/100, 'C', 'D', 'M', flags&RLong400 != 0, flags&RLong900 != 0)
	buf = romanDigit(buf, r/10%10, 'X', 'L', 'C', flags&RLong40 != 0, flags&RLong90 != 0)
	buf = romanDigit(buf, r%10, 'I', 'V', 'X', flags&RLong4 != 0, flags&RLong9 != 0)
	if flags&RLower != 0 {
		for i := range buf {
			buf[i] += 'a' - 'A'
		}
	}
	return string(buf)
}

type romanAlt struct {
	text  string
	value uint64
}

func groupAlts(one, five, ten byte, unit uint64) []romanAlt {
	var alts []romanAlt
	for f := 0; f <= 1; f++ {
		for k := 0; k <= 4; k++ {
			var t []byte
			if f == 1 {
				t = append(t, five)
			}
			for i := 0; i < k; i++ {
				t = append(t, one)
			}
			alts = append(alts, romanAlt{string(t), (uint64(f)*5 + uint64(k)) * unit})
		}
	}
	alts = append(alts, romanAlt{string([]byte{one, five}), 4 * unit}, romanAlt{string([]byte{one, ten}), 9 * unit})
	return alts
}

var romanGroups = [][]romanAlt{
	groupAlts('C', 'D', 'M', 100),
	groupAlts('X', 'L', 'C', 10),
	groupAlts('I', 'V', 'X', 1),
}

// RomanParse evaluates s against M* hundreds tens units (ASCII case-insensitive)
// by trying every split. values holds the distinct sums of all complete
// parses: empty = not in the language; more than one = ambiguous (never
// happens for this grammar, asserted by the caller).
func RomanParse(s []byte) (values []uint64) {
	up := make([]byte, len(s))
	for i, c := range s {
		if c >= 'a' && c <= 'z' {
			c -= 'a' - 'A'
		}
		up[i] = c
	}
	seen := map[uint64]bool{}
	var rec func(pos int, g int, sum uint64)
	rec = func(pos int, g int, sum uint64) {
		if g == 3 {
			if pos == len(up) && !seen[sum] {
				seen[sum] = true
				values = append(values, sum)
			}
			return
		}
		for _, a := range romanGroups[g] {
			if len(up)-pos >= len(a.text) && string(up[pos:pos+len(a.text)]) == a.text {
				rec(pos+len(a.text), g+1, sum+a.value)
			}
		}
	}
	for k := 0; ; k++ {
		rec(k, 0, uint64(k)*1000)
		if k >= len(up) || up[k] != 'M' {
			break
		}
	}
	return values
}
