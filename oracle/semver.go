package oracle

import (
	"math/big"
	"strings"
)

func isDigit(c byte) bool { return c >= '0' && c <= '9' }
func isIdentChar(c byte) bool {
	return isDigit(c) || (c >= 'a' && c <= 'z') || (c >= 'A' && c <= 'Z') || c == '-'
}

func allDigits(s string) bool {
	if s == "" {
		return false
	}
	for i := 0; i < len(s); i++ {
		if !isDigit(s[i]) {
			return false
		}
	}
	return true
}

func identChars(s string) bool {
	if s == "" {
		return false
	}
	for i := 0; i < len(s); i++ {
		if !isIdentChar(s[i]) {
			return false
		}
	}
	return true
}

// numericIdent: "0" or a digit string without leading zero.
func numericIdent(s string) bool {
	return allDigits(s) && (s == "0" || s[0] != '0')
}

// PreValid reports whether s is a valid SemVer 2.0.0 pre-release (dot-separated
// identifiers; numeric ones without leading zeros).
func PreValid(s string) bool {
	if s == "" {
		return false
	}
	for _, id := range strings.Split(s, ".") {
		if !identChars(id) {
			return false
		}
		if allDigits(id) && !numericIdent(id) {
			return false
		}
	}
	return true
}

// BuildValid reports whether s is valid build metadata.
func BuildValid(s string) bool {
	if s == "" {
		return false
	}
	for _, id := range strings.Split(s, ".") {
		if !identChars(id) {
			return false
		}
	}
	return true
}

// Semver is the result of the reference recogniser.
type Semver struct {
	OK                  bool
	Major, Minor, Patch string // decimal texts
	Pre, Build          string
	Overflow            int // 0 none, 1 major, 2 minor, 3 patch: first component above 2^64-1
}

const maxU64 = "18446744073709551615"

func overU64(s string) bool {
	return len(s) > len(maxU64) || (len(s) == len(maxU64) && s > maxU64)
}

// SemverParse recognises <core>[-<pre>][+<build>] (no tag prefix handling).
func SemverParse(s string) Semver {
	rest := s
	var r Semver
	if i := strings.IndexByte(rest, '+'); i >= 0 {
		r.Build = rest[i+1:]
		rest = rest[:i]
		if !BuildValid(r.Build) {
			return Semver{}
		}
	}
	if i := strings.IndexByte(rest, '-'); i >= 0 {
		r.Pre = rest[i+1:]
		rest = rest[:i]
		if !PreValid(r.Pre) {
			return Semver{}
		}
	}
	parts := strings.Split(rest, ".")
	if len(parts) != 3 {
		return Semver{}
	}
	for _, p := range parts {
		if !numericIdent(p) {
			return Semver{}
		}
	}
	r.Major, r.Minor, r.Patch = parts[0], parts[1], parts[2]
	for i, p := range parts {
		if overU64(p) {
			r.Overflow = i + 1
			break
		}
	}
	r.OK = true
	return r
}

// ComparePre is SemVer 2.0.0 section 11 for two pre-release strings ("" = release, ranks highest).
// Both must be valid or empty.
func ComparePre(a, b string) int {
	if a == b {
		return 0
	}
	if a == "" {
		return 1
	}
	if b == "" {
		return -1
	}
	as, bs := strings.Split(a, "."), strings.Split(b, ".")
	for i := 0; i < len(as) && i < len(bs); i++ {
		if c := compareIdent(as[i], bs[i]); c != 0 {
			return c
		}
	}
	switch {
	case len(as) < len(bs):
		return -1
	case len(as) > len(bs):
		return 1
	}
	return 0
}

func compareIdent(x, y string) int {
	xn, yn := allDigits(x), allDigits(y)
	switch {
	case xn && yn:
		bx, _ := new(big.Int).SetString(x, 10)
		by, _ := new(big.Int).SetString(y, 10)
		return bx.Cmp(by)
	case xn:
		return -1
	case yn:
		return 1
	}
	// ASCII order
	switch {
	case x < y:
		return -1
	case x > y:
		return 1
	}
	return 0
}

func stripTrailingDigits(s string) string {
	for len(s) > 0 && isDigit(s[len(s)-1]) {
		s = s[:len(s)-1]
	}
	return s
}

// PinnedDeparture reports whether the pair falls under the departure the
// statement excludes: the first differing identifiers are both alphanumeric
// and differ only in a trailing run of digits (a01 vs a1, rc9 vs rc10).
func PinnedDeparture(a, b string) bool {
	if a == "" || b == "" {
		return false
	}
	as, bs := strings.Split(a, "."), strings.Split(b, ".")
	for i := 0; i < len(as) && i < len(bs); i++ {
		if as[i] == bs[i] {
			continue
		}
		x, y := as[i], bs[i]
		if allDigits(x) || allDigits(y) {
			return false
		}
		return stripTrailingDigits(x) == stripTrailingDigits(y)
	}
	return false
}

// PreReleases enumerates every valid pre-release over the alphabet up to maxLen.
func PreReleases(alphabet string, maxLen int) []string {
	var out []string
	var rec func(cur []byte)
	rec = func(cur []byte) {
		if len(cur) > 0 && PreValid(string(cur)) {
			out = append(out, string(cur))
		}
		if len(cur) == maxLen {
			return
		}
		for i := 0; i < len(alphabet); i++ {
			rec(append(cur, alphabet[i]))
		}
	}
	rec(nil)
	return out
}
