package oracle

import (
	"math/big"
	"strings"
)

// SizeUnits maps every documented unit to its multiplier (nil = too large for 64 bits: only zero allowed).
var SizeUnits = func() map[string]*big.Int {
	m := map[string]*big.Int{"B": big.NewInt(1)}
	dec := []string{"kB", "MB", "GB", "TB", "PB", "EB", "ZB", "YB"}
	bin := []string{"KiB", "MiB", "GiB", "TiB", "PiB", "EiB", "ZiB", "YiB"}
	for i := range dec {
		d := new(big.Int).Exp(big.NewInt(1000), big.NewInt(int64(i+1)), nil)
		b := new(big.Int).Exp(big.NewInt(1024), big.NewInt(int64(i+1)), nil)
		if i >= 6 {
			d, b = nil, nil
		}
		m[dec[i]] = d
		m[bin[i]] = b
	}
	return m
}()

// SizeUnitNames lists all 17 documented units plus "" in a fixed order.
var SizeUnitNames = []string{"", "B", "kB", "MB", "GB", "TB", "PB", "EB", "ZB", "YB", "KiB", "MiB", "GiB", "TiB", "PiB", "EiB", "ZiB", "YiB"}

var two64 = new(big.Int).Lsh(big.NewInt(1), 64)

// SizeProduct: value x unit. known=false for an unknown unit; ok=false when the product does not fit 64 bits
// (or the unit is one of the too-large ones and value != 0).
func SizeProduct(value *big.Int, unit string) (res uint64, known bool, ok bool) {
	if unit == "" {
		unit = "B"
	}
	mult, known := SizeUnits[unit]
	if !known {
		return 0, false, false
	}
	if value.Sign() < 0 {
		return 0, true, false
	}
	if value.Sign() == 0 {
		return 0, true, true
	}
	if mult == nil {
		return 0, true, false
	}
	p := new(big.Int).Mul(value, mult)
	if p.Cmp(two64) >= 0 {
		return 0, true, false
	}
	return p.Uint64(), true, true
}

// unitMultiplier: multiplier of a documented unit ("" = B); the too-large units answer 2^70 / 2^80-like values so that only
// a zero number gives a product below 2^64.
func unitMultiplier(unit string) (*big.Int, bool) {
	if unit == "" {
		unit = "B"
	}
	m, known := SizeUnits[unit]
	if !known {
		return nil, false
	}
	if m == nil {
		return new(big.Int).Lsh(big.NewInt(1), 70), true
	}
	return m, true
}

// Text expectation classes.
const (
	SAccept   = iota // must be accepted with Value
	SReject          // must be rejected
	SDontCare        // may be rejected; if accepted the value must be Value (ValueOK)
)

type SizeExpect struct {
	Class   int
	Value   uint64
	ValueOK bool // for SDontCare: whether an accepted result has a defined value
	HasUnit bool
	Why     string
}

const nbsp = "\u00a0"

// SizeText is the reference reading of the text grammar:
// sp* digit (sep* digit)* sep* unit sp*   with sep in {' ', '_', NBSP}.
// Separators before the first digit or after the last digit when no unit
// follows are don't-care zones (the statement does not mention them).
func SizeText(s string) SizeExpect {
	// White space other than the ASCII space around the whole (tab, new line, no-break space after the unit, ...): the
	// statement only speaks of spaces; a parser that trims more must produce the value of the trimmed text, one that
	// does not must reject - both are fine.
	if t := strings.TrimSpace(s); t != strings.Trim(s, " ") {
		in := SizeText(t)
		if in.Class == SAccept {
			in.Class, in.ValueOK = SDontCare, true
			in.Why = "white space other than ' ' around the whole (statement silent)"
		}
		return in
	}
	return sizeText(s)
}

func sizeText(s string) SizeExpect {
	// strip ASCII spaces around the whole
	i, j := 0, len(s)
	for i < j && s[i] == ' ' {
		i++
	}
	for j > i && s[j-1] == ' ' {
		j--
	}
	t := s[i:j]
	if t == "" {
		return SizeExpect{Class: SReject, Why: "empty"}
	}
	dontcare := false
	// leading separators other than space
	k := 0
	for {
		if k < len(t) && t[k] == '_' {
			k++
			dontcare = true
			continue
		}
		if k+1 < len(t) && t[k:k+2] == nbsp {
			k += 2
			dontcare = true
			continue
		}
		if k < len(t) && t[k] == ' ' { // only reachable after a leading '_' / NBSP
			k++
			continue
		}
		break
	}
	var digits []byte
	lastWasSep := false
	for k < len(t) {
		c := t[k]
		switch {
		case c >= '0' && c <= '9':
			digits = append(digits, c)
			lastWasSep = false
			k++
			continue
		case (c == ' ' || c == '_') && len(digits) > 0:
			lastWasSep = true
			k++
			continue
		case k+1 < len(t) && t[k:k+2] == nbsp && len(digits) > 0:
			lastWasSep = true
			k += 2
			continue
		}
		break
	}
	// A decimal fraction directly after the digits: the statement demands an error when number x multiplier is not an
	// integer ("fractional ... never produce a truncated value") and the exact product when it is one; the pinned parser
	// rejects every fraction. So: integral product => accept with exactly that value or reject; otherwise reject.
	if len(digits) > 0 && k+1 < len(t) && t[k] == '.' && t[k+1] >= '0' && t[k+1] <= '9' {
		// fraction digits, separators between them and before the unit ignored like everywhere else
		var frac []byte
		rest := t[k+1:]
		for {
			switch {
			case rest != "" && rest[0] >= '0' && rest[0] <= '9':
				frac = append(frac, rest[0])
				rest = rest[1:]
				continue
			case strings.HasPrefix(rest, " "), strings.HasPrefix(rest, "_"):
				rest = rest[1:]
				continue
			case strings.HasPrefix(rest, nbsp):
				rest = rest[2:]
				continue
			}
			break
		}
		num, _ := new(big.Int).SetString(string(digits)+string(frac), 10)
		den := new(big.Int).Exp(big.NewInt(10), big.NewInt(int64(len(frac))), nil)
		if mult, known := unitMultiplier(rest); known {
			prod := new(big.Int).Mul(num, mult)
			q, r := new(big.Int).QuoRem(prod, den, new(big.Int))
			if r.Sign() == 0 && q.Cmp(two64) < 0 && (mult.Cmp(two64) < 0 || q.Sign() == 0) {
				return SizeExpect{Class: SDontCare, HasUnit: rest != "", Value: q.Uint64(), ValueOK: true, Why: "decimal fraction whose product is a whole number of bytes (accept with exactly that value, or reject)"}
			}
		}
		return SizeExpect{Class: SReject, Why: "fractional number whose product is not a whole number of bytes below 2^64 / unknown unit"}
	}
	unit := t[k:]
	if len(digits) == 0 {
		if dontcare {
			return SizeExpect{Class: SDontCare, Why: "separator before the first digit, no digits"}
		}
		return SizeExpect{Class: SReject, Why: "no digits"}
	}
	if unit == "" && lastWasSep {
		dontcare = true // "1_" : trailing separator without unit
	}
	v, _ := new(big.Int).SetString(string(digits), 10)
	if v.Cmp(two64) >= 0 {
		if dontcare {
			return SizeExpect{Class: SDontCare, Why: "number overflows"}
		}
		return SizeExpect{Class: SReject, Why: "number overflows"}
	}
	res, known, ok := SizeProduct(v, unit)
	e := SizeExpect{HasUnit: unit != "", Value: res}
	switch {
	case !known:
		e.Class, e.Why = SReject, "unknown unit"
	case !ok:
		e.Class, e.Why = SReject, "product overflows or unit too large"
	default:
		e.Class, e.ValueOK = SAccept, true
	}
	if dontcare {
		if e.Class == SReject {
			e.Class = SDontCare
			e.ValueOK = false
		} else {
			e.Class = SDontCare
		}
		e.Why += " (separator in a place the statement does not mention)"
	}
	return e
}

// Shorten reference: the largest k <= 6 with s divisible by 1024^k.
var BinUnits = []string{"B", "KiB", "MiB", "GiB", "TiB", "PiB", "EiB"}

func Shorten(s uint64) (uint64, string) {
	if s == 0 {
		return 0, "B"
	}
	v := new(big.Int).SetUint64(s)
	k := 0
	k1024 := big.NewInt(1024)
	for k < 6 {
		q, r := new(big.Int).QuoRem(v, k1024, new(big.Int))
		if r.Sign() != 0 {
			break
		}
		v = q
		k++
	}
	return v.Uint64(), BinUnits[k]
}

// Group renders v with digits grouped in threes from the right using sep.
func Group(v uint64, sep string) string {
	d := new(big.Int).SetUint64(v).String()
	var out []byte
	for i := 0; i < len(d); i++ {
		if i > 0 && (len(d)-i)%3 == 0 {
			out = append(out, sep...)
		}
		out = append(out, d[i])
	}
	return string(out)
}

// Decimal returns the plain decimal text of v.
func Decimal(v uint64) string { return new(big.Int).SetUint64(v).String() }

// SizeValues is the stated value alphabet for C04/C13 (see DESIGN.md): dense
// low range, odd x 2^k for every k, neighbourhoods of 10^k, 1000^k, 1024^k, 2^64-1,
// one value for every (unit index, digit count) cell that exists.
func SizeValues(dense uint64, neigh uint64) []uint64 {
	seen := map[uint64]bool{}
	var out []uint64
	add := func(v uint64) {
		if !seen[v] {
			seen[v] = true
			out = append(out, v)
		}
	}
	for v := uint64(0); v < dense; v++ {
		add(v)
	}
	odds := []uint64{1, 3, 5, 7, 9, 11, 15, 99, 101, 999, 1001, 1023, 1025, 12345, 999999, 1000001, 123456789}
	for k := uint(0); k < 64; k++ {
		for _, o := range odds {
			if o<<k>>k == o {
				add(o << k)
			}
		}
		// largest odd factors fitting
		top := ^uint64(0) >> k
		if top&1 == 0 {
			top--
		}
		add(top << k)
		if top >= 3 {
			add((top - 2) << k)
		}
	}
	around := func(c uint64) {
		for d := uint64(0); d <= neigh; d++ {
			if c >= d {
				add(c - d)
			}
			if c+d >= c {
				add(c + d)
			}
		}
	}
	for _, base := range []uint64{10, 1000, 1024} {
		p := uint64(1)
		for {
			around(p)
			if p > (^uint64(0))/base {
				break
			}
			p *= base
		}
	}
	around(^uint64(0))
	around(1 << 63)
	// decimal-round factors on binary units (1000 KiB, 250 MiB, 7 000 000 GiB ...): d x 10^j x 1024^k
	for k := uint(0); k <= 6; k++ {
		p := uint64(1)
		for j := 0; j <= 19; j++ {
			for _, d := range []uint64{1, 2, 5, 25, 125} {
				m := d * p
				if m/d == p && m<<(10*k)>>(10*k) == m {
					add(m << (10 * k))
				}
			}
			if p > (^uint64(0))/10 {
				break
			}
			p *= 10
		}
	}
	// every (unit index, digit count) cell: value = d-digit number x 1024^k (odd so that it is not shortened further)
	for k := uint(0); k <= 6; k++ {
		p := uint64(1)
		for dg := 1; dg <= 20; dg++ {
			for _, m := range []uint64{p + 1 | 1, p*9 + 8 | 1, p*5 | 1} {
				if m<<(10*k)>>(10*k) == m {
					add(m << (10 * k))
				}
			}
			if p > (^uint64(0))/10 {
				break
			}
			p *= 10
		}
	}
	return out
}
