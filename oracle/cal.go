// Package oracle holds the reference models. It imports nothing from the
// library under test and avoids the mechanisms the library itself relies on
// (no package time for calendar arithmetic, no regexp for grammars).
package oracle

// IsLeap is the proleptic Gregorian leap rule (astronomical year numbering).
func IsLeap(y int64) bool {
	if mod(y, 4) != 0 {
		return false
	}
	if mod(y, 100) != 0 {
		return true
	}
	return mod(y, 400) == 0
}

func mod(a, b int64) int64 {
	m := a % b
	if m < 0 {
		m += b
	}
	return m
}

func floorDiv(a, b int64) int64 {
	q := a / b
	if (a%b != 0) && ((a < 0) != (b < 0)) {
		q--
	}
	return q
}

var mdays = [13]int{0, 31, 28, 31, 30, 31, 30, 31, 31, 30, 31, 30, 31}

// DaysIn returns the length of month m (1..12) in year y.
func DaysIn(y int64, m int) int {
	if m == 2 && IsLeap(y) {
		return 29
	}
	return mdays[m]
}

// RealDate reports whether (y,m,d) names an existing day.
func RealDate(y int64, m, d int) bool {
	return m >= 1 && m <= 12 && d >= 1 && d <= DaysIn(y, m)
}

// Ordinal maps a real date to a day number (0001-01-01 -> 1), by counting
// whole years with the leap rule and whole months from the table.
func Ordinal(y int64, m, d int) int64 {
	y1 := y - 1
	n := y1*365 + floorDiv(y1, 4) - floorDiv(y1, 100) + floorDiv(y1, 400)
	for k := 1; k < m; k++ {
		n += int64(DaysIn(y, k))
	}
	return n + int64(d)
}

// FromOrdinal is the inverse of Ordinal.
func FromOrdinal(n int64) (y int64, m, d int) {
	// estimate the year, then correct
	y = floorDiv((n-1)*400, 146097) + 1
	for Ordinal(y, 1, 1) > n {
		y--
	}
	for Ordinal(y+1, 1, 1) <= n {
		y++
	}
	rem := int(n - Ordinal(y, 1, 1)) // 0-based day of year
	m = 1
	for rem >= DaysIn(y, m) {
		rem -= DaysIn(y, m)
		m++
	}
	return y, m, rem + 1
}

// AddDate applies time.AddDate-style normalisation: add years and months to
// the year/month fields, carry months into years, then take the (possibly
// out-of-range) day number as an offset from day 1 of that month.
func AddDate(y int64, m, d int, years, months, days int64) (int64, int, int) {
	ty := y + years
	tm := int64(m-1) + months
	ty += floorDiv(tm, 12)
	tm = mod(tm, 12)
	n := Ordinal(ty, int(tm)+1, 1) + int64(d-1) + days
	return FromOrdinal(n)
}

// NormalizeYMD is what a calendar constructor with normalisation would produce for arbitrary month/day numbers.
func NormalizeYMD(y int64, m, d int64) (int64, int, int) {
	tm := m - 1
	y += floorDiv(tm, 12)
	tm = mod(tm, 12)
	n := Ordinal(y, int(tm)+1, 1) + d - 1
	return FromOrdinal(n)
}

// Digits appends v (>=0) in decimal, left-padded with zeros to at least width digits.
func Digits(buf []byte, v int64, width int) []byte {
	var tmp [24]byte
	i := len(tmp)
	if v == 0 {
		i--
		tmp[i] = '0'
	}
	for v > 0 {
		i--
		tmp[i] = byte('0' + v%10)
		v /= 10
	}
	for len(tmp)-i < width {
		i--
		tmp[i] = '0'
	}
	return append(buf, tmp[i:]...)
}

// DateText renders the ISO text of a date with a non-negative year.
func DateText(y int64, m, d int, basic bool) string {
	b := Digits(nil, y, 4)
	if !basic {
		b = append(b, '-')
	}
	b = Digits(b, int64(m), 2)
	if !basic {
		b = append(b, '-')
	}
	b = Digits(b, int64(d), 2)
	return string(b)
}

// ParseDateText is the independent recogniser of C09: 4..9 year digits,
// separators both present or both absent, two month digits, two day digits,
// nothing else. ok reports syntactic membership (month/day not yet range checked).
func ParseDateText(s []byte) (y int64, m, d int, basic bool, ok bool) {
	isd := func(c byte) bool { return c >= '0' && c <= '9' }
	n := len(s)
	// try extended: Y{4,9}-MM-DD
	if n >= 10 && s[n-3] == '-' && s[n-6] == '-' {
		yl := n - 6
		if yl < 4 || yl > 9 {
			return 0, 0, 0, false, false
		}
		for i := 0; i < n; i++ {
			if i == n-3 || i == n-6 {
				continue
			}
			if !isd(s[i]) {
				return 0, 0, 0, false, false
			}
		}
		for i := 0; i < yl; i++ {
			y = y*10 + int64(s[i]-'0')
		}
		m = int(s[n-5]-'0')*10 + int(s[n-4]-'0')
		d = int(s[n-2]-'0')*10 + int(s[n-1]-'0')
		return y, m, d, false, true
	}
	// basic: Y{4,9}MMDD
	yl := n - 4
	if yl < 4 || yl > 9 {
		return 0, 0, 0, false, false
	}
	for i := 0; i < n; i++ {
		if !isd(s[i]) {
			return 0, 0, 0, false, false
		}
	}
	for i := 0; i < yl; i++ {
		y = y*10 + int64(s[i]-'0')
	}
	m = int(s[n-4]-'0')*10 + int(s[n-3]-'0')
	d = int(s[n-2]-'0')*10 + int(s[n-1]-'0')
	return y, m, d, true, true
}
