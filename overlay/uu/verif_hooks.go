//go:build verif

package uu

import (
	"math/rand"

	sync "go.lstv.dev/util/verifsync"
)

// VerifReset installs a fresh mutex and a generator over the given source (harness seam, injected through -overlay only).
func VerifReset(src rand.Source) {
	randomMutex = sync.Mutex{}
	random = rand.New(src)
}
