// Package rand is a drop-in subset of math/rand for the controlled scheduler (injected through -overlay only; the
// "math/rand" imports of the package under test are redirected here). Every Source the code under test creates with
// NewSource is a scripted one: its values are chosen by the harness, its state update is a non-atomic
// read - scheduling point - write (what math/rand's generator is), and it records a second goroutine entering it.
// The top-level functions, which are safe for concurrent use in math/rand, draw atomically after one scheduling point.
// In Real mode NewSource returns the real math/rand source (seed chosen by the harness).
package rand

import (
	mrand "math/rand"
	"sync"

	sched "go.lstv.dev/util/verifsync"
)

type (
	Source   = mrand.Source
	Source64 = mrand.Source64
	Rand     = mrand.Rand
	Zipf     = mrand.Zipf
)

// Scripted is a harness-controlled generator state.
type Scripted struct {
	SeedGiven  int64
	Index      int  // creation order within the execution
	Counter    int  // generator state: number of completed state updates
	Draws      int  // number of values handed out; Counter < Draws means an update was lost
	Concurrent bool // a second goroutine entered while another one was inside
	Shared     bool // the package-level generator behind the top-level functions (safe for concurrent use)
	inside     int
}

var (
	// Values gives the 63-bit value of draw i of the source created k-th (harness-set).
	Values func(source *Scripted, i int) int64
	// Sources lists every scripted source created since the last Reset.
	Sources []*Scripted
	// Real switches NewSource to the real generator; the k-th source gets seed RealSeed+k.
	Real     bool
	RealSeed int64
	created  int
	global   *Rand
)

// Reset forgets all sources (call before re-initialising the package under test).
func Reset() {
	gmu.Lock()
	Sources, created, global = nil, 0, nil
	gmu.Unlock()
}

// gmu guards the registry against goroutines the package under test runs outside the scheduler (timer callbacks).
var gmu sync.Mutex

func (s *Scripted) Seed(int64) {}

func (s *Scripted) Int63() int64 {
	if s.Shared || !sched.Active() {
		c := s.Counter
		s.Counter++
		s.Draws++
		return value(s, c)
	}
	s.inside++
	if s.inside > 1 {
		s.Concurrent = true
	}
	c := s.Counter
	sched.Yield() // the generator's read-modify-write is not atomic: a scheduling point sits between read and write
	s.Counter = c + 1
	s.inside--
	s.Draws++
	return value(s, c)
}

// Uint64: the real math/rand source is a Source64 too (rand.Rand.Uint64 calls it directly); one state update per call.
func (s *Scripted) Uint64() uint64 {
	v := uint64(s.Int63())
	return v<<1 | v>>62&1
}

func value(s *Scripted, i int) int64 {
	if Values != nil {
		return Values(s, i) & (1<<63 - 1)
	}
	x := uint64(i+1)*0x9E3779B97F4A7C15 + uint64(s.SeedGiven)*0xD1B54A32D192ED03 + uint64(s.Index)<<56
	x ^= x >> 29
	return int64(x & (1<<63 - 1))
}

func newScripted(seed int64, shared bool) *Scripted { // callers hold gmu or are the single controlled thread
	s := &Scripted{SeedGiven: seed, Index: created, Shared: shared}
	created++
	Sources = append(Sources, s)
	return s
}

func NewSource(seed int64) Source {
	if Real {
		k := created
		created++
		return mrand.NewSource(RealSeed + int64(k))
	}
	return newScripted(seed, false)
}

func New(src Source) *Rand { return mrand.New(src) }

func NewZipf(r *Rand, s float64, v float64, imax uint64) *Zipf { return mrand.NewZipf(r, s, v, imax) }

func g() *Rand {
	sched.Yield() // the real top-level functions take a lock (or use per-thread state): one scheduling point, then atomic
	gmu.Lock()
	defer gmu.Unlock()
	if global == nil {
		if Real {
			k := created
			created++
			global = mrand.New(mrand.NewSource(RealSeed + int64(k)))
		} else {
			global = mrand.New(newScripted(0, true))
		}
	}
	return global
}

func Seed(int64)                         {}
func Int63() int64                       { return g().Int63() }
func Uint32() uint32                     { return g().Uint32() }
func Uint64() uint64                     { return g().Uint64() }
func Int31() int32                       { return g().Int31() }
func Int() int                           { return g().Int() }
func Int63n(n int64) int64               { return g().Int63n(n) }
func Int31n(n int32) int32               { return g().Int31n(n) }
func Intn(n int) int                     { return g().Intn(n) }
func Float64() float64                   { return g().Float64() }
func Float32() float32                   { return g().Float32() }
func Perm(n int) []int                   { return g().Perm(n) }
func Shuffle(n int, swap func(i, j int)) { g().Shuffle(n, swap) }
func Read(p []byte) (int, error)         { return g().Read(p) }
func NormFloat64() float64               { return g().NormFloat64() }
func ExpFloat64() float64                { return g().ExpFloat64() }
