// Package rand is a drop-in subset of crypto/rand for the controlled scheduler (injected through -overlay only); see the
// math/rand shim. crypto/rand is safe for concurrent use: every Read is one scheduling point followed by atomic draws
// from the shared scripted generator (the real crypto/rand in Real mode).
package rand

import (
	crand "crypto/rand"
	"io"
	"math/big"

	v1 "go.lstv.dev/util/verifsync/rand"
)

type reader struct{}

func (reader) Read(p []byte) (int, error) {
	if v1.Real {
		return crand.Read(p)
	}
	for i := 0; i < len(p); i += 8 {
		v := v1.Uint64()
		for k := 0; k < 8 && i+k < len(p); k++ {
			p[i+k] = byte(v >> (8 * uint(k)))
		}
	}
	return len(p), nil
}

// Reader is the scripted stand-in for crypto/rand.Reader.
var Reader io.Reader = reader{}

func Read(b []byte) (int, error) { return io.ReadFull(Reader, b) }

func Int(r io.Reader, max *big.Int) (*big.Int, error) { return crand.Int(r, max) }
func Prime(r io.Reader, bits int) (*big.Int, error)   { return crand.Prime(r, bits) }
