package verifsync

import "sync"

// Pool is a deterministic stand-in for sync.Pool: a LIFO free list whose Get and Put are scheduling points (the real
// pool's per-P caches and GC-driven eviction would make controlled executions irreproducible).
type Pool struct {
	New   func() any
	mu    sync.Mutex
	items []any
}

func (p *Pool) Get() any {
	Yield()
	p.mu.Lock()
	if n := len(p.items); n > 0 {
		x := p.items[n-1]
		p.items = p.items[:n-1]
		p.mu.Unlock()
		return x
	}
	p.mu.Unlock()
	if p.New != nil {
		return p.New()
	}
	return nil
}

func (p *Pool) Put(x any) {
	Yield()
	p.mu.Lock()
	p.items = append(p.items, x)
	p.mu.Unlock()
}

func OnceFunc(f func()) func() {
	var o Once
	return func() { o.Do(f) }
}

func OnceValue[T any](f func() T) func() T {
	var o Once
	var v T
	return func() T { o.Do(func() { v = f() }); return v }
}

func OnceValues[T1, T2 any](f func() (T1, T2)) func() (T1, T2) {
	var o Once
	var v1 T1
	var v2 T2
	return func() (T1, T2) { o.Do(func() { v1, v2 = f() }); return v1, v2 }
}
