// Package rand is a drop-in subset of math/rand/v2 for the controlled scheduler (injected through -overlay only); see
// the math/rand shim. Generators built with NewPCG / NewChaCha8 are scripted (non-atomic state update with a scheduling
// point inside); the top-level functions draw atomically from one shared scripted generator after one scheduling point.
package rand

import (
	mrand2 "math/rand/v2"

	sched "go.lstv.dev/util/verifsync"
	v1 "go.lstv.dev/util/verifsync/rand"
)

type (
	Source = mrand2.Source
	Rand   = mrand2.Rand
	Zipf   = mrand2.Zipf
)

type scripted struct{ s *v1.Scripted }

func (p scripted) Uint64() uint64 {
	v := uint64(p.s.Int63())
	return v<<1 | v>>62&1
}

// PCG and ChaCha8 stand in for the real generators (scripted unless v1.Real).
type PCG struct {
	scripted
	real *mrand2.PCG
}
type ChaCha8 struct {
	scripted
	real *mrand2.ChaCha8
}

func (p *PCG) Uint64() uint64 {
	if p.real != nil {
		return p.real.Uint64()
	}
	return p.scripted.Uint64()
}
func (p *PCG) Seed(a, b uint64) {}
func (c *ChaCha8) Uint64() uint64 {
	if c.real != nil {
		return c.real.Uint64()
	}
	return c.scripted.Uint64()
}
func (c *ChaCha8) Seed([32]byte) {}
func (c *ChaCha8) Read(p []byte) (int, error) {
	for i := 0; i < len(p); i += 8 {
		v := c.Uint64()
		for k := 0; k < 8 && i+k < len(p); k++ {
			p[i+k] = byte(v >> (8 * uint(k)))
		}
	}
	return len(p), nil
}

func fresh(seed int64) *v1.Scripted {
	src := v1.NewSource(seed)
	if s, ok := src.(*v1.Scripted); ok {
		return s
	}
	return nil
}

func NewPCG(a, b uint64) *PCG {
	if v1.Real {
		v1.NewSource(0) // advances the creation counter
		return &PCG{real: mrand2.NewPCG(uint64(v1.RealSeed)+uint64(len(v1.Sources)), b)}
	}
	return &PCG{scripted: scripted{fresh(int64(a ^ b))}}
}

func NewChaCha8(seed [32]byte) *ChaCha8 {
	if v1.Real {
		seed[0] ^= byte(v1.RealSeed)
		seed[1] ^= byte(v1.RealSeed >> 8)
		return &ChaCha8{real: mrand2.NewChaCha8(seed)}
	}
	return &ChaCha8{scripted: scripted{fresh(int64(seed[0]))}}
}

func New(src Source) *Rand { return mrand2.New(src) }

var global *Rand

type shared struct{}

func (shared) Uint64() uint64 { return v1.Uint64() }

func g() *Rand {
	if global == nil {
		global = mrand2.New(shared{})
	}
	return global
}

func Uint64() uint64                     { return g().Uint64() }
func Uint32() uint32                     { return g().Uint32() }
func Int64() int64                       { return g().Int64() }
func Int32() int32                       { return g().Int32() }
func Int() int                           { return g().Int() }
func Int64N(n int64) int64               { return g().Int64N(n) }
func Uint64N(n uint64) uint64            { return g().Uint64N(n) }
func Int32N(n int32) int32               { return g().Int32N(n) }
func Uint32N(n uint32) uint32            { return g().Uint32N(n) }
func IntN(n int) int                     { return g().IntN(n) }
func UintN(n uint) uint                  { return g().UintN(n) }
func Float64() float64                   { return g().Float64() }
func Float32() float32                   { return g().Float32() }
func Perm(n int) []int                   { return g().Perm(n) }
func Shuffle(n int, swap func(i, j int)) { g().Shuffle(n, swap) }
func NormFloat64() float64               { return g().NormFloat64() }
func ExpFloat64() float64                { return g().ExpFloat64() }

func N[Int interface {
	~int | ~int8 | ~int16 | ~int32 | ~int64 | ~uint | ~uint8 | ~uint16 | ~uint32 | ~uint64 | ~uintptr
}](n Int) Int {
	return Int(g().Uint64N(uint64(n)))
}

var _ = sched.Active
