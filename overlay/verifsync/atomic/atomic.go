// Package atomic is a drop-in subset of sync/atomic for the controlled scheduler (injected through -overlay only):
// every operation is a scheduling point; because the scheduler runs one goroutine at a time the operations themselves
// are plain memory accesses. Outside a controlled run the real sync/atomic is used.
package atomic

import (
	ratomic "sync/atomic"
	"unsafe"

	sched "go.lstv.dev/util/verifsync"
)

type integer interface {
	~int32 | ~int64 | ~uint32 | ~uint64 | ~uintptr
}

func load[T integer](p *T, real func(*T) T) T {
	if !sched.Active() {
		return real(p)
	}
	sched.AtomicRead(unsafe.Pointer(p))
	return *p
}
func store[T integer](p *T, v T, real func(*T, T)) {
	if !sched.Active() {
		real(p, v)
		return
	}
	sched.AtomicWrite(unsafe.Pointer(p))
	*p = v
}
func add[T integer](p *T, d T, real func(*T, T) T) T {
	if !sched.Active() {
		return real(p, d)
	}
	sched.AtomicWrite(unsafe.Pointer(p))
	*p += d
	return *p
}
func swap[T integer](p *T, v T, real func(*T, T) T) T {
	if !sched.Active() {
		return real(p, v)
	}
	sched.AtomicWrite(unsafe.Pointer(p))
	old := *p
	*p = v
	return old
}
func cas[T integer](p *T, old, new T, real func(*T, T, T) bool) bool {
	if !sched.Active() {
		return real(p, old, new)
	}
	if *p != old { // decide after the scheduling point
		sched.AtomicRead(unsafe.Pointer(p))
		if *p != old {
			return false
		}
		*p = new
		return true
	}
	sched.AtomicWrite(unsafe.Pointer(p))
	if *p != old {
		return false
	}
	*p = new
	return true
}

func LoadInt32(p *int32) int32       { return load(p, ratomic.LoadInt32) }
func LoadInt64(p *int64) int64       { return load(p, ratomic.LoadInt64) }
func LoadUint32(p *uint32) uint32    { return load(p, ratomic.LoadUint32) }
func LoadUint64(p *uint64) uint64    { return load(p, ratomic.LoadUint64) }
func LoadUintptr(p *uintptr) uintptr { return load(p, ratomic.LoadUintptr) }

func StoreInt32(p *int32, v int32)       { store(p, v, ratomic.StoreInt32) }
func StoreInt64(p *int64, v int64)       { store(p, v, ratomic.StoreInt64) }
func StoreUint32(p *uint32, v uint32)    { store(p, v, ratomic.StoreUint32) }
func StoreUint64(p *uint64, v uint64)    { store(p, v, ratomic.StoreUint64) }
func StoreUintptr(p *uintptr, v uintptr) { store(p, v, ratomic.StoreUintptr) }

func AddInt32(p *int32, d int32) int32         { return add(p, d, ratomic.AddInt32) }
func AddInt64(p *int64, d int64) int64         { return add(p, d, ratomic.AddInt64) }
func AddUint32(p *uint32, d uint32) uint32     { return add(p, d, ratomic.AddUint32) }
func AddUint64(p *uint64, d uint64) uint64     { return add(p, d, ratomic.AddUint64) }
func AddUintptr(p *uintptr, d uintptr) uintptr { return add(p, d, ratomic.AddUintptr) }

func SwapInt32(p *int32, v int32) int32         { return swap(p, v, ratomic.SwapInt32) }
func SwapInt64(p *int64, v int64) int64         { return swap(p, v, ratomic.SwapInt64) }
func SwapUint32(p *uint32, v uint32) uint32     { return swap(p, v, ratomic.SwapUint32) }
func SwapUint64(p *uint64, v uint64) uint64     { return swap(p, v, ratomic.SwapUint64) }
func SwapUintptr(p *uintptr, v uintptr) uintptr { return swap(p, v, ratomic.SwapUintptr) }

func CompareAndSwapInt32(p *int32, o, n int32) bool { return cas(p, o, n, ratomic.CompareAndSwapInt32) }
func CompareAndSwapInt64(p *int64, o, n int64) bool { return cas(p, o, n, ratomic.CompareAndSwapInt64) }
func CompareAndSwapUint32(p *uint32, o, n uint32) bool {
	return cas(p, o, n, ratomic.CompareAndSwapUint32)
}
func CompareAndSwapUint64(p *uint64, o, n uint64) bool {
	return cas(p, o, n, ratomic.CompareAndSwapUint64)
}
func CompareAndSwapUintptr(p *uintptr, o, n uintptr) bool {
	return cas(p, o, n, ratomic.CompareAndSwapUintptr)
}

// typed values
type Int32 struct{ v int32 }

func (x *Int32) Load() int32                    { return LoadInt32(&x.v) }
func (x *Int32) Store(v int32)                  { StoreInt32(&x.v, v) }
func (x *Int32) Add(d int32) int32              { return AddInt32(&x.v, d) }
func (x *Int32) Swap(v int32) int32             { return SwapInt32(&x.v, v) }
func (x *Int32) CompareAndSwap(o, n int32) bool { return CompareAndSwapInt32(&x.v, o, n) }

type Int64 struct{ v int64 }

func (x *Int64) Load() int64                    { return LoadInt64(&x.v) }
func (x *Int64) Store(v int64)                  { StoreInt64(&x.v, v) }
func (x *Int64) Add(d int64) int64              { return AddInt64(&x.v, d) }
func (x *Int64) Swap(v int64) int64             { return SwapInt64(&x.v, v) }
func (x *Int64) CompareAndSwap(o, n int64) bool { return CompareAndSwapInt64(&x.v, o, n) }

type Uint32 struct{ v uint32 }

func (x *Uint32) Load() uint32                    { return LoadUint32(&x.v) }
func (x *Uint32) Store(v uint32)                  { StoreUint32(&x.v, v) }
func (x *Uint32) Add(d uint32) uint32             { return AddUint32(&x.v, d) }
func (x *Uint32) Swap(v uint32) uint32            { return SwapUint32(&x.v, v) }
func (x *Uint32) CompareAndSwap(o, n uint32) bool { return CompareAndSwapUint32(&x.v, o, n) }

type Uint64 struct{ v uint64 }

func (x *Uint64) Load() uint64                    { return LoadUint64(&x.v) }
func (x *Uint64) Store(v uint64)                  { StoreUint64(&x.v, v) }
func (x *Uint64) Add(d uint64) uint64             { return AddUint64(&x.v, d) }
func (x *Uint64) Swap(v uint64) uint64            { return SwapUint64(&x.v, v) }
func (x *Uint64) CompareAndSwap(o, n uint64) bool { return CompareAndSwapUint64(&x.v, o, n) }

type Bool struct{ v uint32 }

func b2u(b bool) uint32 {
	if b {
		return 1
	}
	return 0
}
func (x *Bool) Load() bool                    { return LoadUint32(&x.v) != 0 }
func (x *Bool) Store(v bool)                  { StoreUint32(&x.v, b2u(v)) }
func (x *Bool) Swap(v bool) bool              { return SwapUint32(&x.v, b2u(v)) != 0 }
func (x *Bool) CompareAndSwap(o, n bool) bool { return CompareAndSwapUint32(&x.v, b2u(o), b2u(n)) }

// Pointer and Value: scheduling points around plain accesses.
type Pointer[T any] struct {
	p    *T
	real ratomic.Pointer[T]
}

func (x *Pointer[T]) Load() *T {
	if !sched.Active() {
		return x.real.Load()
	}
	sched.AtomicRead(unsafe.Pointer(x))
	return x.p
}
func (x *Pointer[T]) Store(v *T) {
	if !sched.Active() {
		x.real.Store(v)
		return
	}
	sched.AtomicWrite(unsafe.Pointer(x))
	x.p = v
}
func (x *Pointer[T]) Swap(v *T) *T {
	if !sched.Active() {
		return x.real.Swap(v)
	}
	sched.AtomicWrite(unsafe.Pointer(x))
	old := x.p
	x.p = v
	return old
}
func (x *Pointer[T]) CompareAndSwap(o, n *T) bool {
	if !sched.Active() {
		return x.real.CompareAndSwap(o, n)
	}
	sched.AtomicWrite(unsafe.Pointer(x))
	if x.p != o {
		return false
	}
	x.p = n
	return true
}

type Value struct {
	v    any
	real ratomic.Value
}

func (x *Value) Load() any {
	if !sched.Active() {
		return x.real.Load()
	}
	sched.AtomicRead(unsafe.Pointer(x))
	return x.v
}
func (x *Value) Store(v any) {
	if !sched.Active() {
		x.real.Store(v)
		return
	}
	sched.AtomicWrite(unsafe.Pointer(x))
	x.v = v
}
