// Package verifsync is injected into the module under test through `go build -overlay`
// (it is never committed there). It is a drop-in subset of package sync whose
// operations are scheduling points of a cooperative, controlled scheduler, so that a
// model-checking harness can enumerate every interleaving of the goroutines it starts.
// Outside a controlled run (Active() == false) the types behave like package sync.
package verifsync

import (
	"fmt"
	"runtime"
	"sync"
	"time"
	"unsafe"
)

// Chooser decides which enabled thread runs next. preemption is true when the thread
// that ran last is still enabled (index 0 = keep running it; any other index is a preemption).
type Chooser interface {
	Choose(n int, preemption bool) int
}

type thread struct {
	id      int
	goid    uint64 // runtime id of the goroutine running this controlled thread
	resume  chan struct{}
	enabled func() bool // nil = always enabled
	done    bool
	what    string
	// spin detection for atomic reads: the location and version this thread read last (reset by any other operation)
	spinAddr unsafe.Pointer
	spinVer  uint64
	spinning bool
}

// Sched is one controlled execution.
type Sched struct {
	threads      []*thread
	cur          *thread
	chooser      Chooser
	parked       chan *thread
	Deadlock     bool
	Blocked      []string // what the blocked threads wait for when a deadlock is found
	Panics       []string
	Points       int
	Switches     []int                     // thread ids in scheduling order (the schedule)
	versions     map[unsafe.Pointer]uint64 // write counter per atomically accessed location
	Livelock     bool                      // only spinning threads were left, repeatedly
	wakeups      int
	foreignWaits int
}

var active *Sched

// Active reports whether a controlled run is in progress.
func Active() bool { return active != nil }

// Run executes the bodies as controlled threads 0..n-1 until all finish or no thread is enabled.
func Run(ch Chooser, bodies ...func()) *Sched {
	s := &Sched{chooser: ch, parked: make(chan *thread), versions: map[unsafe.Pointer]uint64{}}
	active = s
	defer func() { active = nil }()
	stateMu.Lock()
	foreignHolds = 0
	stateMu.Unlock()
	for i, b := range bodies {
		t := &thread{id: i, resume: make(chan struct{}), what: "start"}
		s.threads = append(s.threads, t)
		b := b
		go func() {
			t.goid = goid()
			<-t.resume
			defer func() {
				if x := recover(); x != nil {
					s.Panics = append(s.Panics, fmt.Sprintf("thread %d: %v", t.id, x))
				}
				t.done = true
				s.parked <- t
			}()
			b()
		}()
	}
	for {
		var order []*thread
		curEnabled := s.cur != nil && !s.cur.done && (s.cur.enabled == nil || s.cur.enabled())
		if curEnabled {
			order = append(order, s.cur)
		}
		unfinished := 0
		for _, t := range s.threads {
			if t.done {
				continue
			}
			unfinished++
			if t == s.cur && curEnabled {
				continue
			}
			if t.enabled == nil || t.enabled() {
				order = append(order, t)
			}
		}
		if unfinished == 0 {
			return s
		}
		if len(order) == 0 {
			// threads that only wait because they re-read an unchanged atomic location are woken once more (a double read is not
			// necessarily a spin loop); if that keeps happening the execution is a livelock, not a deadlock
			woke := false
			for _, t := range s.threads {
				if !t.done && t.spinning {
					t.enabled, t.spinning, t.spinAddr = nil, false, nil
					woke = true
				}
			}
			if woke {
				s.wakeups++
				if s.wakeups < 64 {
					continue
				}
				s.Livelock = true
				return s
			}
			stateMu.Lock()
			fh := foreignHolds
			stateMu.Unlock()
			if fh > 0 && s.foreignWaits < 100000 { // a goroutine outside the scheduler holds a lock: it will release it
				s.foreignWaits++
				time.Sleep(20 * time.Microsecond)
				continue
			}
			s.Deadlock = true
			for _, t := range s.threads {
				if !t.done {
					s.Blocked = append(s.Blocked, fmt.Sprintf("thread %d waits for %s", t.id, t.what))
				}
			}
			return s // blocked goroutines stay parked (leaked on purpose; the execution is over)
		}
		idx := 0
		if len(order) > 1 {
			idx = s.chooser.Choose(len(order), curEnabled)
		}
		t := order[idx]
		s.cur = t
		s.Points++
		s.Switches = append(s.Switches, t.id)
		t.resume <- struct{}{}
		<-s.parked
	}
}

// goid returns the runtime id of the calling goroutine (parsed from the first line of its stack trace).
func goid() uint64 {
	var buf [40]byte
	n := runtime.Stack(buf[:], false)
	var id uint64
	for _, c := range buf[len("goroutine "):n] {
		if c < '0' || c > '9' {
			break
		}
		id = id*10 + uint64(c-'0')
	}
	return id
}

// park is a scheduling point of the calling (current) thread.
func (s *Sched) park(enabled func() bool, what string) {
	t := s.cur
	// A goroutine the package under test started itself (a server goroutine, a timer callback) is not a controlled thread:
	// its operations are not scheduling points (what it does concurrently is the business of the free-running race pass).
	if t == nil || ForeignGoroutines && goid() != t.goid {
		return
	}
	t.enabled, t.what = enabled, what
	s.parked <- t
	<-t.resume
	t.enabled, t.what, t.spinning = nil, "", false
}

// AtomicRead is the scheduling point of an atomic load (or a failed compare-and-swap) of the location addr. A thread that
// reads the same location again while nobody wrote to it is treated as spinning: it is disabled until the location is written.
func AtomicRead(addr unsafe.Pointer) {
	s := active
	if s == nil {
		return
	}
	t := s.cur
	if t.spinAddr == addr && t.spinVer == s.versions[addr] {
		ver := t.spinVer
		t.spinning = true
		s.park(func() bool { return s.versions[addr] != ver }, "change of an atomic location it keeps re-reading")
	} else {
		s.park(nil, "atomic read")
	}
	t.spinAddr, t.spinVer = addr, s.versions[addr]
}

// AtomicWrite is the scheduling point of an atomic store / add / swap / successful compare-and-swap of the location addr.
func AtomicWrite(addr unsafe.Pointer) {
	s := active
	if s == nil {
		return
	}
	s.park(nil, "atomic write")
	s.cur.spinAddr = nil
	s.versions[addr]++
}

// Yield is an explicit scheduling point (used by scripted environment seams).
func Yield() {
	if s := active; s != nil {
		s.park(nil, "yield")
	}
}

// CurrentThread returns the id of the running controlled thread, or -1.
func CurrentThread() int {
	if s := active; s != nil && s.cur != nil {
		return s.cur.id
	}
	return -1
}

// ---------------------------------------------------------------- Mutex
type Mutex struct {
	real   sync.Mutex
	locked bool
	owner  int // controlled thread id, or -1 when a goroutine outside the scheduler holds it
}

// stateMu guards the shim state against goroutines the package under test started itself (server goroutines, timer
// callbacks): they are not scheduled, but their locking must still exclude the controlled threads and vice versa.
var (
	stateMu      sync.Mutex
	foreignHolds int // number of shim mutexes currently held by goroutines outside the scheduler
)

// foreign reports whether the caller is not the running controlled thread.
func (s *Sched) foreign() bool {
	t := s.cur
	return t == nil || ForeignGoroutines && goid() != t.goid
}

// ForeignGoroutines is set (by the generated hooks) when the package under test contains go statements or timers, i.e. may run
// code on goroutines the scheduler does not control; only then is the identity of the calling goroutine looked up at every
// scheduling point (it costs about a microsecond).
var ForeignGoroutines bool

func (m *Mutex) Lock() {
	s := active
	if s == nil {
		m.real.Lock()
		return
	}
	if s.foreign() {
		for {
			stateMu.Lock()
			if !m.locked {
				m.locked, m.owner = true, -1
				foreignHolds++
				stateMu.Unlock()
				return
			}
			stateMu.Unlock()
			time.Sleep(20 * time.Microsecond)
		}
	}
	for {
		s.park(func() bool { stateMu.Lock(); defer stateMu.Unlock(); return !m.locked }, "Mutex.Lock")
		stateMu.Lock()
		if !m.locked {
			m.locked, m.owner, s.cur.spinAddr = true, s.cur.id, nil
			stateMu.Unlock()
			return
		}
		stateMu.Unlock()
	}
}

func (m *Mutex) TryLock() bool {
	s := active
	if s == nil {
		return m.real.TryLock()
	}
	if !s.foreign() {
		s.park(nil, "Mutex.TryLock")
	}
	stateMu.Lock()
	defer stateMu.Unlock()
	if m.locked {
		return false
	}
	if s.foreign() {
		m.locked, m.owner = true, -1
		foreignHolds++
		return true
	}
	m.locked, m.owner = true, s.cur.id
	return true
}

func (m *Mutex) Unlock() {
	s := active
	if s == nil {
		m.real.Unlock()
		return
	}
	stateMu.Lock()
	if !m.locked {
		stateMu.Unlock()
		panic("sync: unlock of unlocked mutex")
	}
	if m.owner == -1 {
		foreignHolds--
	}
	m.locked = false
	stateMu.Unlock()
	s.park(nil, "after Mutex.Unlock")
}

// Locker mirrors sync.Locker.
type Locker = sync.Locker

// ---------------------------------------------------------------- RWMutex
type RWMutex struct {
	real    sync.RWMutex
	writer  bool
	readers int
}

func (m *RWMutex) Lock() {
	s := active
	if s == nil {
		m.real.Lock()
		return
	}
	s.park(func() bool { return !m.writer && m.readers == 0 }, "RWMutex.Lock")
	m.writer = true
}
func (m *RWMutex) Unlock() {
	s := active
	if s == nil {
		m.real.Unlock()
		return
	}
	if !m.writer {
		panic("sync: Unlock of unlocked RWMutex")
	}
	m.writer = false
	s.park(nil, "after RWMutex.Unlock")
}
func (m *RWMutex) RLock() {
	s := active
	if s == nil {
		m.real.RLock()
		return
	}
	s.park(func() bool { return !m.writer }, "RWMutex.RLock")
	m.readers++
}
func (m *RWMutex) RUnlock() {
	s := active
	if s == nil {
		m.real.RUnlock()
		return
	}
	if m.readers == 0 {
		panic("sync: RUnlock of unlocked RWMutex")
	}
	m.readers--
	s.park(nil, "after RWMutex.RUnlock")
}
func (m *RWMutex) RLocker() Locker { return (*rlocker)(m) }

type rlocker RWMutex

func (r *rlocker) Lock()   { (*RWMutex)(r).RLock() }
func (r *rlocker) Unlock() { (*RWMutex)(r).RUnlock() }

// ---------------------------------------------------------------- Once
type Once struct {
	m    Mutex
	done bool
}

func (o *Once) Do(f func()) {
	if active == nil {
		o.m.Lock()
		defer o.m.Unlock()
		if !o.done {
			defer func() { o.done = true }()
			f()
		}
		return
	}
	Yield() // the fast-path read of done is a scheduling point
	if o.done {
		return
	}
	o.m.Lock()
	defer o.m.Unlock()
	if !o.done {
		defer func() { o.done = true }()
		f()
	}
}

// ---------------------------------------------------------------- WaitGroup
type WaitGroup struct {
	real sync.WaitGroup
	n    int
}

func (w *WaitGroup) Add(d int) {
	if active == nil {
		w.real.Add(d)
		return
	}
	w.n += d
	if w.n < 0 {
		panic("sync: negative WaitGroup counter")
	}
	active.park(nil, "after WaitGroup.Add")
}
func (w *WaitGroup) Done() { w.Add(-1) }
func (w *WaitGroup) Wait() {
	if active == nil {
		w.real.Wait()
		return
	}
	active.park(func() bool { return w.n == 0 }, "WaitGroup.Wait")
}

// Types without scheduling relevance are passed through so that unrelated uses keep compiling.
type (
	Map  = sync.Map
	Cond = sync.Cond
)

func NewCond(l Locker) *Cond { return sync.NewCond(l) }
