//go:build verif

package libdefaults

import (
	"go.lstv.dev/util/date"
	"go.lstv.dev/util/roman"
	"go.lstv.dev/util/sem"
	"go.lstv.dev/util/size"
	"go.lstv.dev/util/test"
	"go.lstv.dev/util/uu"
	"verif/mc"
)

// With the hooks injected by tools/ovgen (build tag verif) the harness can put the hidden package-level state of the library
// back to what it is in a fresh process; mc uses it to explore call histories from the initial state.
func init() {
	mc.LibResetPackage = map[string]func(){"date": date.VerifReset, "roman": roman.VerifReset, "sem": sem.VerifReset, "size": size.VerifReset, "uu": uu.VerifReset, "test": test.VerifReset}
	mc.LibReset = func() {
		date.VerifReset()
		roman.VerifReset()
		sem.VerifReset()
		size.VerifReset()
		uu.VerifReset()
		test.VerifReset()
	}
}
