// Package libdefaults captures the initial values of the library's package-level settings at program start (before any check
// touches them) and restores exactly those. Checks never assume what the defaults are when they put the configuration back:
// a change of a default value in the library must stay visible to them.
package libdefaults

import (
	"go.lstv.dev/util/date"
	"go.lstv.dev/util/roman"
	"go.lstv.dev/util/sem"
	"go.lstv.dev/util/size"
	"go.lstv.dev/util/uu"
)

var (
	DateMaxInputLength = date.MaxInputLength
	dateFormatter      = date.Formatter
	dateParser         = date.Parser

	RomanMaxInputLength = roman.MaxInputLength
	RomanDefaultFormat  = roman.DefaultFormat
	romanFormatter      = roman.Formatter
	romanParser         = roman.Parser

	SemMaxInputLength    = sem.MaxInputLength
	semFormatter         = sem.Formatter
	semParser            = sem.Parser
	semComparePreRelease = sem.ComparePreRelease

	SizeMaxInputLength               = size.MaxInputLength
	SizeMaxObjectKeys                = size.MaxObjectKeys
	SizeDefaultRule                  = size.DefaultRule
	sizeDisableMarshalTextUnit       = size.DisableMarshalTextUnit
	sizeDisableMarshalJSONStringForm = size.DisableMarshalJSONStringForm
	sizeDisableMarshalJSONObjectForm = size.DisableMarshalJSONObjectForm
	sizeFormatter                    = size.Formatter
	sizeParser                       = size.Parser

	UUMaxInputLength = uu.MaxInputLength
	uuFormatter      = uu.Formatter
	uuParser         = uu.Parser
)

func Date() {
	date.MaxInputLength, date.Formatter, date.Parser = DateMaxInputLength, dateFormatter, dateParser
}

func Roman() {
	roman.MaxInputLength, roman.DefaultFormat, roman.Formatter, roman.Parser = RomanMaxInputLength, RomanDefaultFormat, romanFormatter, romanParser
}

func Sem() {
	sem.MaxInputLength, sem.Formatter, sem.Parser, sem.ComparePreRelease = SemMaxInputLength, semFormatter, semParser, semComparePreRelease
}

func Size() {
	size.MaxInputLength, size.MaxObjectKeys, size.DefaultRule = SizeMaxInputLength, SizeMaxObjectKeys, SizeDefaultRule
	size.DisableMarshalTextUnit, size.DisableMarshalJSONStringForm, size.DisableMarshalJSONObjectForm = sizeDisableMarshalTextUnit, sizeDisableMarshalJSONStringForm, sizeDisableMarshalJSONObjectForm
	size.Formatter, size.Parser = sizeFormatter, sizeParser
}

func UU() {
	uu.MaxInputLength, uu.Formatter, uu.Parser = UUMaxInputLength, uuFormatter, uuParser
}

func All() {
	Date()
	Roman()
	Sem()
	Size()
	UU()
}
