module verif

go 1.18

require (
	github.com/stretchr/testify v1.7.1
	go.lstv.dev/util v0.0.0
)

require (
	github.com/davecgh/go-spew v1.1.0 // indirect
	github.com/pmezard/go-difflib v1.0.0 // indirect
	gopkg.in/yaml.v3 v3.0.0-20200313102051-9f266ea9e77c // indirect
)

replace go.lstv.dev/util => /repo
