module verif

go 1.18

require (
	github.com/stretchr/testify v1.7.1
	go.lstv.dev/util v0.0.0
)

replace go.lstv.dev/util => /repo
