// Package firstuse holds, per library package, an alphabet of calls - every exported entry point with a few argument classes
// - and the differential oracle "history independence from the initial state":
//
//	for every ordered pair (c1, c2) of the alphabet:   outcome(reset; c1; c2) == outcome(reset; c2)
//	for every call c:                                  outcome(reset; c) is not a panic, and == outcome(c) in the warmed-up process
//
// where reset puts the library's hidden package-level state back to what it is in a fresh process (mc.LibReset, hooks injected
// by tools/ovgen) and an outcome is the canonical rendering of everything the call returns (values and error texts). The
// first call of a pair ranges over the whole package; the judged second call over the entry points a check's property covers
// (tags). No expected values are written down here: that a first call's outcome is *right* is decided by the check's own
// probes, which in the first pass also run from the initial state.
package firstuse

import (
	"encoding/json"
	"fmt"
	"strings"
	"sync"
	"time"

	"go.lstv.dev/util/date"
	"go.lstv.dev/util/roman"
	"go.lstv.dev/util/sem"
	"go.lstv.dev/util/size"
	"go.lstv.dev/util/uu"
	"verif/libdefaults"
	"verif/mc"
)

// Call is one entry point applied to fixed arguments; Fn returns the canonical outcome.
type Call struct {
	Name string
	Tag  string // parse, format, binary, arith, filter, valid, compare, next, new, json, access
	Fn   func() string
}

func o(a ...any) string {
	var sb strings.Builder
	for i, x := range a {
		if i > 0 {
			sb.WriteString(" | ")
		}
		sb.WriteString(val(x))
	}
	return sb.String()
}

// val renders a result structurally, never through the library's own formatting methods (an outcome of a parser call must
// not depend on the formatter).
func val(x any) string {
	switch v := x.(type) {
	case []byte:
		if v == nil {
			return "nil-bytes"
		}
		return fmt.Sprintf("%q", v)
	case error:
		if v == nil {
			return "<nil>"
		}
		return "error(" + v.Error() + ")"
	case nil:
		return "<nil>"
	case date.Date:
		y, m, d := v.Date()
		return fmt.Sprintf("date(%d,%d,%d)", y, int(m), d)
	case []date.Date:
		var p []string
		for _, e := range v {
			p = append(p, val(e))
		}
		return strings.Join(p, ",")
	case roman.Number:
		return fmt.Sprintf("roman(%d)", uint64(v))
	case sem.Ver:
		return fmt.Sprintf("ver(%d,%d,%d,%q,%q)", v.Major, v.Minor, v.Patch, v.PreRelease, v.Build)
	case size.Size:
		return fmt.Sprintf("size(%d)", uint64(v))
	case uu.ID:
		return fmt.Sprintf("id(%016x,%016x)", v.Higher, v.Lower)
	case time.Month:
		return fmt.Sprint(int(v))
	case string, bool, int, int8, int16, int32, int64, uint, uint8, uint16, uint32, uint64, float32, float64, time.Duration, []bool, json.Number:
		return fmt.Sprintf("%#v", v)
	}
	return fmt.Sprintf("%T?", x)
}

func c(name, tag string, fn func() string) Call { return Call{name, tag, fn} }

// ---------------------------------------------------------------- date
func Date() []Call {
	ds := []date.Date{date.New(2023, 12, 31), date.New(2024, 1, 1), date.New(2024, 2, 29), date.New(476, 9, 4), date.New(12345, 6, 7)}
	var cs []Call
	for _, d := range ds {
		d := d
		n := fmt.Sprintf("%04d-%02d-%02d", d.Year(), int(d.Month()), d.Day())
		cs = append(cs,
			c("DefaultFormatter(nil,"+n+",0)", "format", func() string { b, err := date.DefaultFormatter(nil, d, 0); return o(b, err) }),
			c("DefaultFormatter(prefix,"+n+",FormatBasic)", "format", func() string { b, err := date.DefaultFormatter([]byte("x="), d, date.FormatBasic); return o(b, err) }),
			c(n+".String", "format", func() string { return o(d.String()) }),
			c(n+".MarshalText", "format", func() string { b, err := d.MarshalText(); return o(b, err) }),
			c(n+" %s %b %v", "format", func() string { return o(fmt.Sprintf("%s %b %v", d, d, d)) }),
			c("json.Marshal("+n+")", "format", func() string { b, err := json.Marshal(map[string]any{"d": d, "l": []date.Date{d}}); return o(b, err) }),
			c(n+".MarshalBinary", "binary", func() string { b, err := d.MarshalBinary(); return o(b, err) }),
			c(n+" accessors", "arith", func() string {
				y, m, dd := d.Date()
				return o(y, m, dd, d.Year(), d.Month(), d.Day(), d.IsZero(), d.Time().String())
			}),
			c(n+".Add/AddDuration", "arith", func() string {
				return o(d.Add(0, 0, 1), d.Add(0, 1, 0), d.Add(1, 0, -1), d.AddDuration(-time.Nanosecond), d.AddDuration(36*time.Hour))
			}),
		)
	}
	texts := []string{"2023-12-31", "2024-01-01", "20240229", "0476-09-04", "12345-06-07", "2023-02-30", "2024-13-01", "", "2024-1-01", "2024-01-01x", " 2024-01-01"}
	for _, t := range texts {
		t := t
		cs = append(cs,
			c(fmt.Sprintf("DefaultParser[string](%q,0)", t), "parse", func() string { d, err := date.DefaultParser(t, 0); return o(d, err) }),
			c(fmt.Sprintf("DefaultParser[[]byte](%q,RuleDisableBasic)", t), "parse", func() string { d, err := date.DefaultParser([]byte(t), date.RuleDisableBasic); return o(d, err) }),
			c(fmt.Sprintf("UnmarshalText(%q)", t), "parse", func() string { d := date.New(1999, 9, 9); err := d.UnmarshalText([]byte(t)); return o(d, err) }),
			c(fmt.Sprintf("json.Unmarshal(%q)", t), "parse", func() string {
				var v struct{ D date.Date }
				b, _ := json.Marshal(map[string]string{"D": t})
				err := json.Unmarshal(b, &v)
				return o(v.D, err != nil)
			}),
		)
	}
	for _, b := range [][]byte{{1, 0, 0, 7, 232, 2, 29}, {1, 0, 0, 7, 231, 2, 29}, {1, 0, 0, 7, 232, 13, 1}, {2, 0, 0, 7, 232, 1, 1}, {1, 0, 0}, {}, nil} {
		b := b
		cs = append(cs, c(fmt.Sprintf("UnmarshalBinary(%x)", b), "binary", func() string {
			d := date.New(1999, 9, 9)
			err := d.UnmarshalBinary(append([]byte(nil), b...))
			return o(d, err)
		}))
	}
	a, b2, z := date.New(2024, 2, 29), date.New(2023, 12, 31), date.New(1677, 1, 1)
	for _, p := range [][2]date.Date{{a, b2}, {b2, a}, {a, a}, {a, z}, {z, a}} {
		x, y := p[0], p[1]
		cs = append(cs, c(fmt.Sprintf("order/Sub/DaysBetween(%s,%s)", val(x), val(y)), "arith", func() string {
			return o(x.Before(y), x.After(y), x.Equal(y), x.Sub(y), x.DaysBetween(y))
		}))
	}
	loc := time.FixedZone("x", -11*3600)
	for _, t := range []time.Time{time.Date(2024, 2, 29, 23, 59, 59, 999999999, time.UTC), time.Date(2024, 3, 1, 0, 30, 0, 0, loc), {}} {
		t := t
		cs = append(cs, c("FromTime/Scan("+t.String()+")", "arith", func() string {
			var d1, d2 date.Date
			d1.FromTime(t)
			err := d2.Scan(t)
			return o(date.FromTime(t), d1, d2, err)
		}))
	}
	cs = append(cs, c("Scan(wrong types)", "arith", func() string {
		d := date.New(1999, 9, 9)
		return o(d.Scan("2024-01-01"), d.Scan(nil), d.Scan(42), d)
	}))
	fa, fb := date.New(2024, 2, 28), date.New(2024, 3, 1)
	for i, bounds := range [][2]*date.Date{{&fa, &fb}, {nil, &fb}, {&fa, nil}, {nil, nil}, {&fb, &fa}, {&fa, &fa}} {
		bounds := bounds
		cs = append(cs, c(fmt.Sprintf("FilterFromTo#%d+Contains", i), "filter", func() string {
			var f, t *date.Date
			if bounds[0] != nil {
				v := *bounds[0]
				f = &v
			}
			if bounds[1] != nil {
				v := *bounds[1]
				t = &v
			}
			fl, err := date.FilterFromTo(f, t)
			if err != nil {
				return o(fl == nil, err)
			}
			var r []bool
			for _, p := range []date.Date{date.New(2024, 2, 27), fa, date.New(2024, 2, 29), fb, date.New(2024, 3, 2), date.New(2023, 2, 28), date.New(2025, 3, 1), {}} {
				r = append(r, fl.Contains(p))
			}
			return o(r)
		}))
	}
	return cs
}

// ---------------------------------------------------------------- roman
func Roman() []Call {
	var cs []Call
	for _, n := range []roman.Number{0, 4, 14, 499, 999, 1999, 2014, 3888, 4000, 36004, 120014} {
		n := n
		for _, f := range []roman.Format{0, roman.FormatLowerCase, roman.FormatLong4 | roman.FormatLong9, 63, 127} {
			f := f
			cs = append(cs, c(fmt.Sprintf("DefaultFormatter(nil,%d,%d)", uint64(n), int(f)), "format", func() string { b, err := roman.DefaultFormatter(nil, n, f); return o(b, err) }))
		}
		cs = append(cs,
			c(fmt.Sprintf("%d String/MarshalText/verbs", uint64(n)), "format", func() string {
				b, err := n.MarshalText()
				return o(n.String(), b, err, fmt.Sprintf("%s %R %r %L %l", n, n, n, n, n))
			}),
			c(fmt.Sprintf("DefaultFormatter(prefix,%d,0)", uint64(n)), "format", func() string {
				b, err := roman.DefaultFormatter(append(make([]byte, 0, 40), "n="...), n, 0)
				return o(b, err)
			}),
		)
	}
	for _, t := range []string{"", "XIV", "xiv", "MMXIV", "mmxiv", "IIII", "DCCCC", "MCMXCIX", "IVI", "VIV", "IC", "XIVx", "N", " XIV"} {
		t := t
		cs = append(cs,
			c(fmt.Sprintf("DefaultParser[string](%q,0)", t), "parse", func() string { n, err := roman.DefaultParser(t, 0); return o(n, err) }),
			c(fmt.Sprintf("DefaultParser[[]byte](%q,RuleDisableEmptyAsZero)", t), "parse", func() string {
				n, err := roman.DefaultParser([]byte(t), roman.RuleDisableEmptyAsZero)
				return o(n, err)
			}),
			c(fmt.Sprintf("Valid(%q)", t), "valid", func() string {
				return o(roman.Valid(t, 0), roman.Valid([]byte(t), roman.RuleDisableEmptyAsZero))
			}),
			c(fmt.Sprintf("UnmarshalText(%q)", t), "parse", func() string { n := roman.Number(7); err := n.UnmarshalText([]byte(t)); return o(n, err) }),
		)
	}
	return cs
}

// ---------------------------------------------------------------- sem
func Sem() []Call {
	var cs []Call
	texts := []string{"1.2.3", "v1.2.3", "1.2.3-rc.1", "1.2.3-rc.1+build.5", "1.0.0+exp-sha.5114f85", "v2.0.0-0.3.7", "1.2.3-beta.11", "1.2.3-beta.2", "01.2.3", "1.2", "", "1.2.3-", "V1.2.3", "1.2.3-rc..1", "18446744073709551616.0.0"}
	for _, t := range texts {
		t := t
		cs = append(cs,
			c(fmt.Sprintf("Parse(%q)", t), "parse", func() string { v, err := sem.Parse(t); return o(v, err) }),
			c(fmt.Sprintf("ParseVersion[[]byte](%q)", t), "parse", func() string { v, err := sem.ParseVersion([]byte(t)); return o(v, err) }),
			c(fmt.Sprintf("ParseTag(%q)", t), "parse", func() string { v, err := sem.ParseTag(t); return o(v, err) }),
			c(fmt.Sprintf("DefaultParser(%q,RuleDisableTag)", t), "parse", func() string { v, err := sem.DefaultParser(t, sem.RuleDisableTag); return o(v, err) }),
			c(fmt.Sprintf("UnmarshalText(%q)", t), "parse", func() string { v := sem.New(7, 7, 7, "keep"); err := v.UnmarshalText([]byte(t)); return o(v, err) }),
		)
	}
	vers := []sem.Ver{sem.New(1, 2, 3), sem.New(1, 2, 3, "rc.1"), sem.New(1, 2, 3, "rc.1", "build.5"), {Major: 1, Build: "exp-sha"}, {Major: 1, PreRelease: "beta.11"}, {Major: 1, PreRelease: "beta.2"},
		{Major: 1, PreRelease: "01"}, {Major: 1, Build: "é"}, {}}
	for _, v := range vers {
		v := v
		vn := val(v)
		cs = append(cs,
			c(vn+" String/StringTag/MarshalText/verbs", "format", func() string {
				b, err := v.MarshalText()
				return o(v.String(), v.StringTag(), b, err, fmt.Sprintf("%s %v", v, v))
			}),
			c("DefaultFormatter(prefix,"+vn+",FormatTag)", "format", func() string { b, err := sem.DefaultFormatter([]byte("t:"), v, sem.FormatTag); return o(b, err) }),
			c(vn+" Valid", "valid", func() string { return o(v.Valid()) }),
			c(vn+" Core/IsZero/Next*", "next", func() string { return o(v.Core(), v.IsZero(), v.NextMajor(), v.NextMinor(), v.NextPatch()) }),
		)
	}
	for _, p := range [][2]int{{0, 1}, {1, 0}, {1, 2}, {2, 1}, {4, 5}, {5, 4}, {1, 4}, {6, 4}, {3, 0}, {1, 1}} {
		a, b := vers[p[0]], vers[p[1]]
		cs = append(cs, c(fmt.Sprintf("Compare/Latest(%s,%s)", val(a), val(b)), "compare", func() string {
			return o(a.Compare(b), a.Latest(b), sem.DefaultComparePreRelease(a.PreRelease, b.PreRelease), sem.DefaultComparePreRelease([]byte(a.PreRelease), []byte(b.PreRelease)))
		}))
	}
	for _, p := range [][2]string{{"1.2.3", "1.2.4"}, {"v1.2.3-rc.1", "1.2.3"}, {"1.2.3-beta.11", "1.2.3-beta.2"}, {"v2.0.0", "v1.0.0"}, {"1.0", "1.0.0"}, {"1.0.0", "x"}, {"v1.0.0", "v1.0.0+b"}} {
		a, b := p[0], p[1]
		cs = append(cs, c(fmt.Sprintf("string helpers(%q,%q)", a, b), "compare", func() string {
			c1, e1 := sem.Compare(a, b)
			c2, e2 := sem.CompareVersion[string, string](a, b)
			c3, e3 := sem.CompareTag([]byte(a), b)
			l1, e4 := sem.Latest(a, b)
			l2, e5 := sem.LatestVersion(a, []byte(b))
			l3, e6 := sem.LatestTag(a, b)
			return o(c1, e1, c2, e2, c3, e3, l1, e4, l2, e5, l3, e6)
		}))
	}
	return cs
}

// ---------------------------------------------------------------- size
// SizeConfigs are the marshalling-switch configurations the size alphabet is explored under (index = Config).
var SizeConfigs = [][3]bool{{false, false, false}, {false, false, true}, {false, true, true}, {true, false, false}, {false, true, false}}

func SetSizeConfig(i int) {
	libdefaults.Size()
	size.DisableMarshalTextUnit, size.DisableMarshalJSONStringForm, size.DisableMarshalJSONObjectForm = SizeConfigs[i][0], SizeConfigs[i][1], SizeConfigs[i][2]
}

func Size() []Call {
	var cs []Call
	for _, s := range []size.Size{0, 10, 11, 1000, 1023, 1024, 1100, 1536, 1000000, 1 << 20, 1234567, 1 << 60, 1 << 63, 18446744073709551615} {
		s := s
		cs = append(cs,
			c(fmt.Sprintf("%d String/Pretty*", uint64(s)), "format", func() string {
				return o(s.String(), s.PrettyString(), string(s.PrettyHTML()), s.BytesString(), s.BytesJSONNumber())
			}),
			c(fmt.Sprintf("%d Shorten", uint64(s)), "format", func() string { v, u := s.Shorten(); return o(v, u) }),
			c(fmt.Sprintf("DefaultFormatter(prefix,%d,flags)", uint64(s)), "format", func() string {
				b0, e0 := size.DefaultFormatter(nil, s, 0)
				b1, e1 := size.DefaultFormatter([]byte("s="), s, size.FormatPretty)
				b2, e2 := size.DefaultFormatter(make([]byte, 0, 64), s, size.FormatPretty|size.FormatHTML)
				b3, e3 := size.DefaultFormatter(nil, s, size.FormatHTML)
				return o(b0, e0, b1, e1, b2, e2, b3, e3)
			}),
			c(fmt.Sprintf("%d MarshalText", uint64(s)), "marshal", func() string { b, err := s.MarshalText(); return o(b, err) }),
			c(fmt.Sprintf("%d MarshalJSON", uint64(s)), "marshal", func() string { b, err := s.MarshalJSON(); return o(b, err) }),
			c(fmt.Sprintf("json.Marshal(%d)", uint64(s)), "marshal", func() string { b, err := json.Marshal(map[string]any{"s": s, "l": []size.Size{s}}); return o(b, err) }),
			c(fmt.Sprintf("Bytes(%d)", uint64(s)), "new", func() string {
				a, ok1 := size.Bytes[int8](s)
				b, ok2 := size.Bytes[uint16](s)
				d, ok3 := size.Bytes[float32](s)
				e, ok4 := size.Bytes[int64](s)
				return o(a, ok1, b, ok2, d, ok3, e, ok4)
			}),
		)
	}
	for _, t := range []string{"0", "10", "10B", "1 kB", "1KiB", "1_000 kB", "1 024 KiB", "16 EiB", "15 EiB", "1 XB", "0 ZB", "1 ZB", "", "kB", "1.5 kB", " 12 MB ", "18446744073709551615", "18446744073709551616", "1kb"} {
		t := t
		cs = append(cs,
			c(fmt.Sprintf("DefaultParser[string](%q,0)", t), "parse", func() string { s, err := size.DefaultParser(t, 0); return o(s, err) }),
			c(fmt.Sprintf("DefaultParser[[]byte](%q,RuleDisableUnit)", t), "parse", func() string { s, err := size.DefaultParser([]byte(t), size.RuleDisableUnit); return o(s, err) }),
			c(fmt.Sprintf("UnmarshalText(%q)", t), "parse", func() string { s := size.Size(7); err := s.UnmarshalText([]byte(t)); return o(s, err) }),
		)
	}
	for _, t := range []string{`10`, `"10 KiB"`, `{"value":1,"unit":"KiB"}`, `{"unit":"MB","value":2,"x":[1,{"y":2}]}`, `{"value":1}`, `{"value":1,"unit":"B","value":2}`, `1.5`, `"1 XB"`, `[1]`, `null`, ` 4096 `, "4096\n", `{"value":1,"unit":"KiB"} x`, `1e3`, ``} {
		t := t
		for _, r := range []size.Rule{size.RuleEnableJSONStringForm | size.RuleEnableJSONObjectForm, size.RuleEnableJSONStringForm, size.RuleEnableJSONObjectForm | size.RuleDisallowUnknownKeys} {
			r := r
			cs = append(cs, c(fmt.Sprintf("DefaultParser(%q,rule=%d)", t, int(r)), "json", func() string {
				s1, e1 := size.DefaultParser(t, r)
				s2, e2 := size.DefaultParser([]byte(t), r)
				return o(s1, e1, s2, e2)
			}))
		}
		cs = append(cs, c(fmt.Sprintf("UnmarshalJSON(%q)", t), "json", func() string {
			s := size.Size(7)
			err := s.UnmarshalJSON([]byte(t))
			var w struct{ S size.Size }
			e2 := json.Unmarshal([]byte(`{"S":`+t+`}`), &w)
			return o(s, err, w.S, e2 != nil)
		}))
	}
	type ratio float64
	cs = append(cs,
		c("New(int/uint/float, units)", "new", func() string {
			a, e1 := size.New(1, "KiB")
			b, e2 := size.New(uint8(200), "kB")
			d, e3 := size.New(1.5, "B")
			e, e4 := size.New(-1, "B")
			f, e5 := size.New(16, "EiB")
			g, e6 := size.New(ratio(2.75), "KiB")
			h, e7 := size.New(3, "MGB")
			i, e8 := size.New(0, "YiB")
			return o(a, e1, b, e2, d, e3, e, e4, f, e5, g, e6, h, e7, i, e8)
		}),
	)
	return cs
}

// ---------------------------------------------------------------- uu
func UU() []Call {
	var cs []Call
	ids := []uu.ID{{}, {Higher: 0xed7059f380444f2a, Lower: 0x81aab959b33c7777}, {Higher: ^uint64(0), Lower: ^uint64(0)}, {Higher: 0x0123456789abcdef, Lower: 0xfedcba9876543210}}
	for _, id := range ids {
		id := id
		cs = append(cs,
			c(fmt.Sprintf("%x String/URN/MarshalText/verbs", id.Higher), "format", func() string {
				b, err := id.MarshalText()
				return o(id.String(), id.URN(), b, err, fmt.Sprintf("%s %v", id, id))
			}),
			c(fmt.Sprintf("DefaultFormatter(%x)", id.Higher), "format", func() string {
				b0, e0 := uu.DefaultFormatter(nil, id, 0)
				b1, e1 := uu.DefaultFormatter([]byte("id="), id, uu.FormatURN)
				b2, e2 := uu.DefaultFormatter(make([]byte, 0, 64), id, uu.FormatURN)
				return o(b0, e0, b1, e1, b2, e2)
			}),
			c(fmt.Sprintf("%x Version/Variant", id.Higher), "access", func() string { return o(id.Version(), id.Variant()) }),
		)
	}
	for _, t := range []string{"ed7059f3-8044-4f2a-81aa-b959b33c7777", "ED7059F3-8044-4F2A-81AA-B959B33C7777", "urn:uuid:ed7059f3-8044-4f2a-81aa-b959b33c7777", "urn:uuid:ed7059f3-8044-4f2a-81aa-b959b33C7777",
		"ed7059f3--80444f2a-81aa-b959b33c7777", "ed7059f380444f2a81aab959b33c7777", "", "ed7059f3-8044-4f2a-81aa-b959b33c777g", "URN:UUID:ed7059f3-8044-4f2a-81aa-b959b33c7777", "{ed7059f3-8044-4f2a-81aa-b959b33c7777}"} {
		t := t
		for _, r := range []uu.Rule{0, uu.RuleDisableURN, uu.RuleDisableUpperCaseDigits, uu.RuleDisableURN | uu.RuleDisableUpperCaseDigits} {
			r := r
			cs = append(cs, c(fmt.Sprintf("DefaultParser(%q,%d)", t, int(r)), "parse", func() string {
				a, e1 := uu.DefaultParser(t, r)
				b, e2 := uu.DefaultParser([]byte(t), r)
				return o(a, e1, b, e2)
			}))
		}
		cs = append(cs, c(fmt.Sprintf("UnmarshalText(%q)", t), "parse", func() string { id := uu.ID{Higher: 7, Lower: 7}; err := id.UnmarshalText([]byte(t)); return o(id, err) }))
	}
	return cs
}

// ---------------------------------------------------------------- the phase
type Arg struct {
	Package string `json:"package"`
	Config  int    `json:"config,omitempty"` // size only: index into SizeConfigs
	Zeroth  string `json:"zeroth_call,omitempty"` // depth-3 histories: called before First
	First   string `json:"first_call,omitempty"`
	Second  string `json:"judged_call"`
}

var alphabets = map[string]func() []Call{"date": Date, "roman": Roman, "sem": Sem, "size": Size, "uu": UU}

var aloneMemo = map[string]string{}

// reset puts the hidden state of one library package (and of the internal package it uses) back to its initial value.
func reset(pkg string) {
	if f := mc.LibResetPackage[pkg]; f != nil {
		f()
		return
	}
	mc.LibReset()
}

func run(fn func() string) (out string) {
	defer func() {
		if x := recover(); x != nil {
			out = fmt.Sprintf("PANIC: %v", x)
		}
	}()
	return fn()
}

func find(cs []Call, name string) *Call {
	for i := range cs {
		if cs[i].Name == name {
			return &cs[i]
		}
	}
	return nil
}

func setup(a Arg) {
	switch a.Package {
	case "date":
		libdefaults.Date()
	case "roman":
		libdefaults.Roman()
	case "sem":
		libdefaults.Sem()
	case "size":
		SetSizeConfig(a.Config)
	case "uu":
		libdefaults.UU()
	}
}

func probe(a Arg) (string, string) {
	if mc.LibReset == nil {
		return "", "" // built without the hooks: nothing to explore
	}
	cs := alphabets[a.Package]()
	second := find(cs, a.Second)
	if second == nil {
		return "unknown_call", a.Second
	}
	key := fmt.Sprint(a.Package, a.Config, a.Second)
	alone, cached := aloneMemo[key]
	if !cached || a.First == "" {
		reset(a.Package)
		setup(a)
		alone = run(second.Fn)
		aloneMemo[key] = alone // a pure function of the tree under test: outcome(reset; second)
	}
	if strings.HasPrefix(alone, "PANIC") {
		return "panic_as_first_call", fmt.Sprintf("%s.%s as the first call of a fresh process: %s", a.Package, a.Second, alone)
	}
	if a.First == "" { // single call: the first call's outcome must be the outcome of every later identical call
		again := run(second.Fn)
		if again != alone {
			return "first_call_differs_from_later_call", fmt.Sprintf("%s.%s: first call of a fresh process gave %s, the same call repeated gave %s", a.Package, a.Second, alone, again)
		}
		return "", ""
	}
	first := find(cs, a.First)
	if first == nil {
		return "unknown_call", a.First
	}
	var zeroth *Call
	if a.Zeroth != "" {
		if zeroth = find(cs, a.Zeroth); zeroth == nil {
			return "unknown_call", a.Zeroth
		}
	}
	reset(a.Package)
	setup(a)
	before := a.First
	if zeroth != nil {
		run(zeroth.Fn)
		before = a.Zeroth + " and then " + a.First
	}
	run(first.Fn)
	after := run(second.Fn)
	if after != alone {
		return "outcome_depends_on_earlier_call", fmt.Sprintf("%s.%s gives %s as the first call of a fresh process but %s when %s was called before it", a.Package, a.Second, alone, after, before)
	}
	return "", ""
}

// entryPoint is the name of the function or method a call exercises (the call's name up to its argument list).
func entryPoint(name string) string {
	if i := strings.IndexByte(name, '('); i >= 0 {
		return name[:i]
	}
	return name
}

// depth3 explores the histories of three calls (c0; c1; j), j judged against its outcome as a first call. Quick tier: the
// repeated-call slice c0 == c1 (state that changes on the second sighting of a call). Thorough tier: every ordered pair
// (c0, c1) of the package alphabet, unless that is more than maxTriples histories for the package - then c0 ranges over the
// first call of each distinct entry point only (stated in the outcome line and the phase bound).
const maxTriples = 2500000

func depth3(r *mc.Run, w *mc.W, p *mc.Probe[Arg], pkg string, cs []Call, want map[string]bool) string {
	judged := 0
	for _, c := range cs {
		if len(want) == 0 || want[c.Tag] {
			judged++
		}
	}
	zeroths := cs
	mode := "every ordered pair (c0,c1) of the alphabet"
	if r.Quick() {
		mode = "c0 == c1 (a call repeated)"
	} else if len(cs)*len(cs)*judged > maxTriples {
		zeroths = nil
		seen := map[string]bool{}
		for _, c := range cs {
			if e := entryPoint(c.Name); !seen[e] {
				seen[e] = true
				zeroths = append(zeroths, c)
			}
		}
		mode = fmt.Sprintf("c0 over the first call of each of the %d entry points, c1 over the alphabet", len(zeroths))
	}
	n := 0
	for _, second := range cs {
		if len(want) > 0 && !want[second.Tag] {
			continue
		}
		for _, first := range cs {
			if r.Quick() {
				if w.Expired() {
					return mode + " (deadline)"
				}
				w.Point()
				w.NonTrivial()
				p.Do(w, Arg{Package: pkg, Zeroth: first.Name, First: first.Name, Second: second.Name})
				n++
				continue
			}
			for _, zeroth := range zeroths {
				if w.Expired() {
					return mode + " (deadline)"
				}
				w.Point()
				w.NonTrivial()
				p.Do(w, Arg{Package: pkg, Zeroth: zeroth.Name, First: first.Name, Second: second.Name})
				n++
			}
		}
	}
	return fmt.Sprintf("%s: %d calls, %d judged, %s: %d histories", pkg, len(cs), judged, mode, n)
}

// ---------------------------------------------------------------- concurrent first use (supplement)
type ConcArg struct {
	Package string `json:"package"`
	Config  int    `json:"config,omitempty"`
	Call    string `json:"call"`
}

// probeConcurrentFirst: the library is put back to its initial state and the call is made from 8 goroutines released
// together (state built lazily on first use must be safe to build concurrently); every outcome must be the outcome the call
// has as the first call of a fresh process. A free-running supplement like the race pass of C19: 12 attempts per execution,
// not an exhaustive exploration of the interleavings.
func probeConcurrentFirst(a ConcArg) (string, string) {
	if mc.LibReset == nil {
		return "", ""
	}
	cs := alphabets[a.Package]()
	c := find(cs, a.Call)
	if c == nil {
		return "unknown_call", a.Call
	}
	arg := Arg{Package: a.Package, Config: a.Config, Second: a.Call}
	reset(a.Package)
	setup(arg)
	alone := run(c.Fn)
	// partner: the next call of the alphabet with the same tag (another value through the same entry points), so that state
	// shared between calls with different arguments (a scratch buffer, a one-entry cache) shows as a foreign outcome
	var partners []*Call // the same-tag calls that follow c in the alphabet (cyclically)
	for i := range cs {
		if cs[i].Name == c.Name {
			for k := 1; k < len(cs); k++ {
				if q := &cs[(i+k)%len(cs)]; q.Tag == c.Tag {
					partners = append(partners, q)
				}
			}
			break
		}
	}
	if len(partners) == 0 {
		partners = []*Call{c}
	}
	partnerAlones := map[*Call]string{}
	for k := 0; k < 6 && k < len(partners); k++ {
		reset(a.Package)
		setup(arg)
		partnerAlones[partners[k]] = run(partners[k].Fn)
	}
	for attempt := 0; attempt < 12; attempt++ {
		reset(a.Package)
		setup(arg)
		partner := partners[(attempt/2)%len(partners)] // attempts 1,3,5,...: the 1st, 2nd, 3rd ... following call with the same tag
		partnerAlone := partnerAlones[partner]
		const g = 8
		outs := make([]string, g)
		start := make(chan struct{})
		var wg sync.WaitGroup
		for i := 0; i < g; i++ {
			i := i
			wg.Add(1)
			go func() {
				defer wg.Done()
				<-start
				fn, want := c.Fn, alone
				if attempt%2 == 1 && i%2 == 1 { // odd attempts: half of the goroutines call the partner
					fn, want = partner.Fn, partnerAlone
				}
				outs[i] = want
				reps := 1
				if attempt > 1 {
					reps = 40 // later attempts: repeated calls (the library is warm then; shared scratch state is what is looked for)
				}
				for k := 0; k < reps; k++ {
					if o := run(fn); o != want {
						outs[i] = o
						if i%2 == 1 && attempt%2 == 1 {
							outs[i] = "(partner call " + partner.Name + ") " + o
						}
						return
					}
				}
			}()
		}
		close(start)
		wg.Wait()
		for i, o := range outs {
			want := alone
			if attempt%2 == 1 && i%2 == 1 {
				want = partnerAlone
			}
			if o != want {
				return "concurrent_first_use_differs", fmt.Sprintf("%s.%s called from %d goroutines at once from the initial state of a fresh process (odd attempts: half of them calling %s) gave %s; alone it gives %s", a.Package, a.Call, g, partner.Name, o, want)
			}
		}
	}
	return "", ""
}

// Phase adds the history-independence exploration for the given packages; judged second calls are those whose tag is listed
// (nil = all). It is a serial phase: it runs in the first pass (before anything else has touched the library) and again in
// place.
func Phase(r *mc.Run, tags map[string][]string) {
	p := mc.NewProbe(r, "history_independence_from_initial_state", setup, probe)
	p.SelfReset = true
	if !r.FirstPass() && !r.Replaying() { // the probe resets the library itself: exploring it once is enough
		return
	}
	pkgs := make([]string, 0, len(tags))
	for _, k := range []string{"date", "roman", "sem", "size", "uu"} {
		if _, ok := tags[k]; ok {
			pkgs = append(pkgs, k)
		}
	}
	r.Phase(fmt.Sprintf("serial: history independence from the initial state (%s): every entry point as the first call of a fresh process, and every ordered pair of calls of the package alphabet with the second call judged against its outcome as a first call", strings.Join(pkgs, ", ")),
		"complete for depth 2 over the call alphabet", func() {
			if mc.LibReset == nil {
				return
			}
			r.Serial(func(w *mc.W) {
				for _, pkg := range pkgs {
					cs := alphabets[pkg]()
					want := map[string]bool{}
					for _, t := range tags[pkg] {
						want[t] = true
					}
					ncfg := 1
					if pkg == "size" {
						ncfg = len(SizeConfigs)
					}
					for cfg := 0; cfg < ncfg; cfg++ {
						for _, second := range cs {
							if len(want) > 0 && !want[second.Tag] {
								continue
							}
							w.Point()
							p.Do(w, Arg{Package: pkg, Config: cfg, Second: second.Name})
							for _, first := range cs {
								if w.Expired() {
									return
								}
								w.Point()
								w.NonTrivial()
								p.Do(w, Arg{Package: pkg, Config: cfg, First: first.Name, Second: second.Name})
							}
						}
					}
					w.Outcome("history independence: " + pkg)
				}
			})
			libdefaults.All()
		})
	bound3 := "thorough: all (c0,c1,j) with c0,c1 over the package alphabet (c0 over one call per entry point where that exceeds 2.5M histories), default configuration"
	if r.Quick() {
		bound3 = "quick: the slice c0 == c1 (a call repeated, then the judged call), default configuration"
	}
	r.Phase(fmt.Sprintf("serial: history independence at depth 3 (%s): three calls from the initial state, the third judged against its outcome as a first call", strings.Join(pkgs, ", ")), bound3, func() {
		if mc.LibReset == nil {
			return
		}
		r.Serial(func(w *mc.W) {
			for _, pkg := range pkgs {
				want := map[string]bool{}
				for _, t := range tags[pkg] {
					want[t] = true
				}
				w.Outcome("depth 3: " + depth3(r, w, p, pkg, alphabets[pkg](), want))
			}
		})
		libdefaults.All()
	})
	pc := mc.NewProbe(r, "concurrent_first_use", func(a ConcArg) { setup(Arg{Package: a.Package, Config: a.Config}) }, probeConcurrentFirst)
	pc.SelfReset = true
	if r.FirstPass() || r.Replaying() {
		r.Phase(fmt.Sprintf("serial: supplement (free-running, not exhaustive): every judged entry point of %s called from 8 goroutines at once as the first use of a fresh process (odd attempts: half of them call a partner call with other arguments; attempts 3-12: 40 calls per goroutine), 12 attempts each", strings.Join(pkgs, ", ")), "12 attempts per call", func() {
			if mc.LibReset == nil || r.HasViolations() { // violations of the serial histories already decide the run
				return
			}
			r.Serial(func(w *mc.W) {
				for _, pkg := range pkgs {
					want := map[string]bool{}
					for _, t := range tags[pkg] {
						want[t] = true
					}
					for _, c := range alphabets[pkg]() {
						if len(want) > 0 && !want[c.Tag] {
							continue
						}
						if w.Expired() {
							return
						}
						w.Point()
						pc.Do(w, ConcArg{Package: pkg, Call: c.Name})
					}
				}
				w.Outcome("concurrent first use")
			})
			libdefaults.All()
		})
	}
	r.Sample("history_independence_from_initial_state", Arg{Package: "roman", First: "DefaultFormatter(nil,14,64)", Second: "DefaultFormatter(nil,2014,0)"})
}
