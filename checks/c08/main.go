// C08: size arithmetic is exact or refused, never wrapped.
package main

import (
	"errors"
	"fmt"
	"math"
	"math/big"
	"strconv"
	"strings"

	"go.lstv.dev/util/constraint"
	"go.lstv.dev/util/size"
	"verif/firstuse"
	"verif/libdefaults"
	"verif/mc"
	"verif/oracle"
)

func reset() {
	libdefaults.Size()
}

func typed(err error) bool {
	var a *size.ParseError[string]
	var b *size.ParseError[[]byte]
	return errors.As(err, &a) || errors.As(err, &b)
}

// ---- probe 1: uint64 value x unit through New and through "<n><unit>" text
type nuArg struct {
	V    uint64 `json:"value"`
	Unit string `json:"unit"`
}

func probeNU(a nuArg) (string, string) {
	res, known, ok := oracle.SizeProduct(new(big.Int).SetUint64(a.V), a.Unit)
	accept := known && ok
	g, err := size.New(a.V, a.Unit)
	judge := func(path string, g size.Size, err error) (string, string) {
		if accept {
			if err != nil {
				return "exact_product_refused", fmt.Sprintf("%s(%d, %q) refused: %v; exact product %d fits", path, a.V, a.Unit, err, res)
			}
			if uint64(g) != res {
				return "wrong_product", fmt.Sprintf("%s(%d, %q) = %d; exact product is %d", path, a.V, a.Unit, uint64(g), res)
			}
			return "", ""
		}
		if err == nil {
			why := "the product does not fit 64 bits"
			if !known {
				why = "the unit is unknown"
			}
			return "wrapped_or_unknown_accepted", fmt.Sprintf("%s(%d, %q) = %d although %s", path, a.V, a.Unit, uint64(g), why)
		}
		if g != 0 {
			return "nonzero_result_with_error", fmt.Sprintf("%s(%d, %q) = %d with %v", path, a.V, a.Unit, uint64(g), err)
		}
		return "", ""
	}
	if k, d := judge("New[uint64]", g, err); k != "" {
		return k, d
	}
	if strings.ContainsAny(a.Unit, " _ ") || (len(a.Unit) > 0 && a.Unit[0] >= '0' && a.Unit[0] <= '9') {
		return "", ""
	}
	for _, sep := range []string{"", " "} {
		txt := oracle.Decimal(a.V) + sep + a.Unit
		g, err = size.DefaultParser(txt, 0)
		if k, d := judge("DefaultParser[string] "+strconv.Quote(txt), g, err); k != "" {
			return k, d
		}
		g, err = size.DefaultParser([]byte(txt), 0)
		if k, d := judge("DefaultParser[[]byte] "+strconv.Quote(txt), g, err); k != "" {
			return k, d
		}
	}
	return "", ""
}

// ---- probe 2: New over every numeric kind
type nkArg struct {
	Kind string `json:"kind"`
	Val  string `json:"value"`
	Unit string `json:"unit"`
}

type myI16 int16
type myU32 uint32
type myF32 float32
type myF64 float64

func newOf[N constraint.Numbers](v N, unit string) (size.Size, error) { return size.New(v, unit) }

// callNew parses Val for the kind, calls size.New and returns the exact value that was passed (nil for NaN/Inf).
func callNew(kind, val, unit string) (g size.Size, err error, exact *big.Float, special string) {
	pi := func(bits int) int64 {
		v, e := strconv.ParseInt(val, 10, bits)
		if e != nil {
			panic("harness: bad int literal " + val + " for " + kind)
		}
		return v
	}
	pu := func(bits int) uint64 {
		v, e := strconv.ParseUint(val, 10, bits)
		if e != nil {
			panic("harness: bad uint literal " + val + " for " + kind)
		}
		return v
	}
	pf := func(bits int) float64 {
		v, e := strconv.ParseFloat(val, bits)
		if e != nil && !math.IsInf(v, 0) {
			panic("harness: bad float literal " + val)
		}
		return v
	}
	fl := func(f float64) (*big.Float, string) {
		if math.IsNaN(f) {
			return nil, "NaN"
		}
		if math.IsInf(f, 0) {
			return nil, "Inf"
		}
		return new(big.Float).SetPrec(200).SetFloat64(f), ""
	}
	bi := func(v int64) *big.Float { return new(big.Float).SetPrec(200).SetInt64(v) }
	bu := func(v uint64) *big.Float { return new(big.Float).SetPrec(200).SetUint64(v) }
	switch kind {
	case "int":
		v := pi(64)
		g, err = newOf(int(v), unit)
		exact = bi(v)
	case "int8":
		v := pi(8)
		g, err = newOf(int8(v), unit)
		exact = bi(v)
	case "int16":
		v := pi(16)
		g, err = newOf(int16(v), unit)
		exact = bi(v)
	case "int32":
		v := pi(32)
		g, err = newOf(int32(v), unit)
		exact = bi(v)
	case "int64":
		v := pi(64)
		g, err = newOf(v, unit)
		exact = bi(v)
	case "myI16":
		v := pi(16)
		g, err = newOf(myI16(v), unit)
		exact = bi(v)
	case "uint":
		v := pu(64)
		g, err = newOf(uint(v), unit)
		exact = bu(v)
	case "uint8":
		v := pu(8)
		g, err = newOf(uint8(v), unit)
		exact = bu(v)
	case "uint16":
		v := pu(16)
		g, err = newOf(uint16(v), unit)
		exact = bu(v)
	case "uint32":
		v := pu(32)
		g, err = newOf(uint32(v), unit)
		exact = bu(v)
	case "uint64":
		v := pu(64)
		g, err = newOf(v, unit)
		exact = bu(v)
	case "myU32":
		v := pu(32)
		g, err = newOf(myU32(v), unit)
		exact = bu(v)
	case "float32":
		v := float32(pf(32))
		g, err = newOf(v, unit)
		exact, special = fl(float64(v))
	case "myF32":
		v := myF32(pf(32))
		g, err = newOf(v, unit)
		exact, special = fl(float64(v))
	case "float64":
		v := pf(64)
		g, err = newOf(v, unit)
		exact, special = fl(v)
	case "myF64":
		v := myF64(pf(64))
		g, err = newOf(v, unit)
		exact, special = fl(float64(v))
	default:
		panic("harness: unknown kind " + kind)
	}
	return
}

func probeNK(a nkArg) (string, string) {
	g, err, exact, special := callNew(a.Kind, a.Val, a.Unit)
	refuse := func(why string) (string, string) {
		if err == nil {
			return "inexact_value_accepted", fmt.Sprintf("New[%s](%s, %q) = %d although %s", a.Kind, a.Val, a.Unit, uint64(g), why)
		}
		if g != 0 {
			return "nonzero_result_with_error", fmt.Sprintf("New[%s](%s, %q) = %d with %v", a.Kind, a.Val, a.Unit, uint64(g), err)
		}
		return "", ""
	}
	if special != "" {
		return refuse("the value is " + special)
	}
	unit := a.Unit
	if unit == "" {
		unit = "B"
	}
	mult, known := oracle.SizeUnits[unit]
	if !known {
		return refuse("the unit is unknown")
	}
	if exact.Sign() == 0 {
		if err != nil || g != 0 {
			return "zero_refused", fmt.Sprintf("New[%s](%s, %q) = %d, %v; zero with a known unit must give 0", a.Kind, a.Val, a.Unit, uint64(g), err)
		}
		return "", ""
	}
	if exact.Sign() < 0 {
		return refuse("the value is negative")
	}
	if mult == nil {
		return refuse("the unit is too large for 64 bits")
	}
	prod := new(big.Float).SetPrec(400).Mul(exact, new(big.Float).SetPrec(200).SetInt(mult))
	if !exact.IsInt() {
		if prod.IsInt() { // 1.5 kB = 1500: "exact or refused"
			pi, _ := prod.Int(nil)
			if err == nil && (pi.Cmp(new(big.Int).Lsh(big.NewInt(1), 64)) >= 0 || uint64(g) != pi.Uint64()) {
				return "wrong_product", fmt.Sprintf("New[%s](%s, %q) = %d; exact product is %s", a.Kind, a.Val, a.Unit, uint64(g), pi)
			}
			return "", ""
		}
		return refuse("the value is fractional and the product is not an integer")
	}
	vi, _ := exact.Int(nil)
	res, _, ok := oracle.SizeProduct(vi, a.Unit)
	if !ok {
		return refuse("the product does not fit 64 bits")
	}
	if err != nil {
		return "exact_product_refused", fmt.Sprintf("New[%s](%s, %q) refused: %v; exact product %d fits", a.Kind, a.Val, a.Unit, err, res)
	}
	if uint64(g) != res {
		return "wrong_product", fmt.Sprintf("New[%s](%s, %q) = %d; exact product is %d", a.Kind, a.Val, a.Unit, uint64(g), res)
	}
	return "", ""
}

// ---- probe 3: text grammar
type txArg struct {
	Max  *int    `json:"max_input_length,omitempty"` // nil = default 128
	In   mc.Bin  `json:"in"`
	Prev *mc.Bin `json:"previous_call,omitempty"` // history of depth 2: parsed first, on the buffer that is then reused for In
	Via  int     `json:"previous_via,omitempty"`  // the single previous call: 0 DefaultParser[[]byte] on the shared buffer, 1 DefaultParser[string], 2 UnmarshalText on the shared buffer
}

func setupTX(a txArg) {
	size.MaxInputLength = libdefaults.SizeMaxInputLength // default configuration: whatever the library starts with
	if a.Max != nil {
		size.MaxInputLength = *a.Max
	}
}

func probeTX(a txArg) (string, string) {
	e := oracle.SizeText(string(a.In))
	if lim := size.MaxInputLength; lim != 0 && len(a.In) > lim {
		e = oracle.SizeExpect{Class: oracle.SReject, Why: "longer than MaxInputLength"}
	}
	// named string / byte-slice input types behave like the plain ones
	{
		type namedS string
		type namedB []byte
		pv, pe := size.DefaultParser(string(a.In), 0)
		nv, ne := size.DefaultParser(namedS(a.In), 0)
		bv, be := size.DefaultParser(namedB(a.In), 0)
		if nv != pv || bv != pv || (ne == nil) != (pe == nil) || (be == nil) != (pe == nil) {
			return "named_type_differs", fmt.Sprintf("DefaultParser(%q): plain %d,%v named string %d,%v named []byte %d,%v", a.In, uint64(pv), pe, uint64(nv), ne, uint64(bv), be)
		}
	}
	cp := append([]byte(nil), a.In...)
	if a.Prev != nil {
		buf := make([]byte, 0, 256)
		buf = append(buf, *a.Prev...)
		switch a.Via {
		case 0:
			_, _ = size.DefaultParser(buf, 0)
		case 1:
			_, _ = size.DefaultParser(string(*a.Prev), 0)
		default:
			var s size.Size
			_ = s.UnmarshalText(buf)
		}
		cp = append(buf[:0], a.In...) // the same backing array, overwritten in place
	}
	var g1, g2 size.Size
	var e1, e2 error
	if a.Prev != nil { // history: the reused buffer is parsed first, directly after the previous call
		g2, e2 = size.DefaultParser(cp, 0)
		g1, e1 = size.DefaultParser(string(a.In), 0)
	} else {
		g1, e1 = size.DefaultParser(string(a.In), 0)
		g2, e2 = size.DefaultParser(cp, 0)
	}
	var u size.Size = 4242
	e3 := u.UnmarshalText(cp)
	if e3 != nil {
		u = 0
	}
	for i, res := range []struct {
		g size.Size
		e error
	}{{g1, e1}, {g2, e2}, {u, e3}} {
		path := []string{"DefaultParser[string]", "DefaultParser[[]byte]", "UnmarshalText"}[i]
		switch e.Class {
		case oracle.SAccept:
			if res.e != nil {
				return "valid_text_refused", fmt.Sprintf("%s(%q) refused: %v; it reads as %d", path, a.In, res.e, e.Value)
			}
			if uint64(res.g) != e.Value {
				return "wrong_value", fmt.Sprintf("%s(%q) = %d; it reads as %d", path, a.In, uint64(res.g), e.Value)
			}
		case oracle.SReject:
			if res.e == nil {
				return "invalid_text_accepted", fmt.Sprintf("%s(%q) = %d although: %s", path, a.In, uint64(res.g), e.Why)
			}
			if res.g != 0 {
				return "nonzero_result_with_error", fmt.Sprintf("%s(%q) = %d with %v", path, a.In, uint64(res.g), res.e)
			}
		default: // don't care: only "no wrong value"
			if res.e == nil && (!e.ValueOK || uint64(res.g) != e.Value) {
				return "wrong_value_in_dontcare_zone", fmt.Sprintf("%s(%q) = %d; acceptable: an error%s", path, a.In, uint64(res.g), map[bool]string{true: fmt.Sprintf(" or %d", e.Value), false: ""}[e.ValueOK])
			}
		}
	}
	return "", ""
}

// ---- probe 4: Bytes[N]
type byArg struct {
	Kind string `json:"kind"`
	S    uint64 `json:"size"`
}

func bytesOf[N constraint.Numbers](s size.Size) (float64, uint64, bool, bool) {
	v, ok := size.Bytes[N](s)
	// report v both as uint64 (integers) and float64 (floats)
	return float64(v), uint64(v), ok, constraint.IsFloat[N]()
}

var kindBits = map[string]int{"int8": 7, "int16": 15, "int32": 31, "int64": 63, "int": 63, "myI16": 15, "uint8": 8, "uint16": 16, "uint32": 32, "uint64": 64, "uint": 64, "myU32": 32}
var mantissa = map[string]uint{"float32": 24, "myF32": 24, "float64": 53, "myF64": 53}

func probeBY(a byArg) (string, string) {
	s := size.Size(a.S)
	var f float64
	var u uint64
	var ok, isF bool
	switch a.Kind {
	case "int":
		f, u, ok, isF = bytesOf[int](s)
	case "int8":
		f, u, ok, isF = bytesOf[int8](s)
	case "int16":
		f, u, ok, isF = bytesOf[int16](s)
	case "int32":
		f, u, ok, isF = bytesOf[int32](s)
	case "int64":
		f, u, ok, isF = bytesOf[int64](s)
	case "myI16":
		f, u, ok, isF = bytesOf[myI16](s)
	case "uint":
		f, u, ok, isF = bytesOf[uint](s)
	case "uint8":
		f, u, ok, isF = bytesOf[uint8](s)
	case "uint16":
		f, u, ok, isF = bytesOf[uint16](s)
	case "uint32":
		f, u, ok, isF = bytesOf[uint32](s)
	case "uint64":
		f, u, ok, isF = bytesOf[uint64](s)
	case "myU32":
		f, u, ok, isF = bytesOf[myU32](s)
	case "float32":
		f, u, ok, isF = bytesOf[float32](s)
	case "myF32":
		f, u, ok, isF = bytesOf[myF32](s)
	case "float64":
		f, u, ok, isF = bytesOf[float64](s)
	case "myF64":
		f, u, ok, isF = bytesOf[myF64](s)
	default:
		panic("harness: unknown kind")
	}
	var wantOK bool
	if m, fl := mantissa[a.Kind]; fl {
		if !isF {
			return "isfloat", a.Kind + " not reported as float"
		}
		// exactly representable iff the odd part fits the mantissa (exponent range is never the limit below 2^64)
		x := a.S
		for x != 0 && x&1 == 0 {
			x >>= 1
		}
		wantOK = x < 1<<m
	} else {
		bits := kindBits[a.Kind]
		wantOK = bits == 64 || a.S < 1<<uint(bits)
	}
	if ok != wantOK {
		return "bytes_ok_flag", fmt.Sprintf("Bytes[%s](%d) ok = %v; exactly representable = %v", a.Kind, a.S, ok, wantOK)
	}
	if ok {
		if isF {
			bf := new(big.Float).SetPrec(200).SetFloat64(f)
			if bf.Cmp(new(big.Float).SetPrec(200).SetUint64(a.S)) != 0 {
				return "bytes_value", fmt.Sprintf("Bytes[%s](%d) = %v", a.Kind, a.S, f)
			}
		} else if u != a.S {
			return "bytes_value", fmt.Sprintf("Bytes[%s](%d) = %d", a.Kind, a.S, u)
		}
	} else if f != 0 || u != 0 {
		return "bytes_nonzero_when_not_ok", fmt.Sprintf("Bytes[%s](%d) = %v/%d, false", a.Kind, a.S, f, u)
	}
	return "", ""
}

// ---- probe 5: constraint helpers for derived types
type cArg struct{}

func probeC(cArg) (string, string) {
	bad := ""
	chk := func(name string, ok bool) {
		if !ok && bad == "" {
			bad = name
		}
	}
	chk("Max[myI16]", constraint.Max[myI16]() == 32767 && constraint.Min[myI16]() == -32768 && constraint.SizeBits[myI16]() == 16 && constraint.IsSigned[myI16]() && !constraint.IsFloat[myI16]() && constraint.SmallestNonzero[myI16]() == 1)
	chk("Max[myU32]", constraint.Max[myU32]() == 4294967295 && constraint.Min[myU32]() == 0 && constraint.SizeBits[myU32]() == 32 && !constraint.IsSigned[myU32]() && !constraint.IsFloat[myU32]() && constraint.SizeBytes[myU32]() == 4)
	chk("Max[myF32]", constraint.Max[myF32]() == math.MaxFloat32 && constraint.Min[myF32]() == -math.MaxFloat32 && constraint.SizeBits[myF32]() == 32 && constraint.IsSigned[myF32]() && constraint.IsFloat[myF32]() && constraint.SmallestNonzero[myF32]() == math.SmallestNonzeroFloat32)
	chk("Max[myF64]", constraint.Max[myF64]() == math.MaxFloat64 && constraint.Min[myF64]() == -math.MaxFloat64 && constraint.SizeBits[myF64]() == 64 && constraint.SmallestNonzero[myF64]() == math.SmallestNonzeroFloat64)
	chk("Max[int8]", constraint.Max[int8]() == 127 && constraint.Min[int8]() == -128 && constraint.Max[uint8]() == 255 && constraint.Max[int16]() == 32767 && constraint.Max[uint16]() == 65535)
	chk("Max[int32]", constraint.Max[int32]() == math.MaxInt32 && constraint.Min[int32]() == math.MinInt32 && constraint.Max[uint32]() == math.MaxUint32)
	chk("Max[int64]", constraint.Max[int64]() == math.MaxInt64 && constraint.Min[int64]() == math.MinInt64 && constraint.Max[uint64]() == math.MaxUint64 && constraint.Max[int]() == math.MaxInt && constraint.Max[uint]() == math.MaxUint)
	if bad != "" {
		return "constraint_helper", bad + " and companions disagree with the language's limits"
	}
	return "", ""
}

func main() {
	mc.Main("C08", "per unit: every value within the stated distance of floor((2^64-1)/multiplier) and of 0, all powers of two and ten; New over 16 numeric kinds x boundary values x units; grammar-generated texts with every separator placement; all short strings over a text alphabet; Bytes[N] at type and mantissa boundaries; "+
		"non-trivial = the reference accepts the point (exact product fits)", func(r *mc.Run) {
		firstuse.Phase(r, map[string][]string{"size": {"new", "parse"}})
		r.Reset = reset
		reset()
		pNU := mc.NewProbe(r, "new_uint64_and_text", nil, probeNU)
		pNK := mc.NewProbe(r, "new_kind", nil, probeNK)
		pTX := mc.NewProbe(r, "text", setupTX, probeTX)
		pBY := mc.NewProbe(r, "bytes", nil, probeBY)
		pC := mc.NewProbe(r, "constraint", nil, probeC)
		r.Assume("reference arithmetic in math/big; unit multipliers kB..EB = 1000^k, KiB..EiB = 1024^k, ZB/YB/ZiB/YiB only with zero")
		r.Assume("don't-care zones (statement silent): fractional float whose product is integral (exact value or error); separators before the first digit or after the last digit when no unit follows (error, or the value with separators removed)")
		r.Assume("float-to-integer conversion behaviour is decided for this platform (amd64) only")

		units := append([]string{}, oracle.SizeUnitNames...)
		unknown := []string{"XB", "kb", "K", "b", "KB", "kib", "Kib", "iB", "BB", "Kb", "mB", "MiB ", " MiB", "M", "Ki", "kiB", "kB1", "bytes", "\x00", "é"}
		span := uint64(1000)
		if !r.Quick() {
			span = 20000
		}
		r.Phase(fmt.Sprintf("New[uint64] and \"<n><unit>\" text: 18 units + %d unknown units x values within +-%d of floor((2^64-1)/mult), of 0, all 2^k, 10^k (+-1)", len(unknown), span), "complete grid", func() {
			all := append(append([]string{}, units...), unknown...)
			r.Parallel(int64(len(all)), 1, func(w *mc.W, i int64) {
				unit := all[i]
				seen := map[uint64]bool{}
				do := func(v uint64) {
					if seen[v] {
						return
					}
					seen[v] = true
					w.Point()
					_, known, ok := oracle.SizeProduct(new(big.Int).SetUint64(v), unit)
					if known && ok {
						w.NonTrivial()
						w.Outcome("exact")
					} else if known {
						w.Outcome("overflow_refused")
					} else {
						w.Outcome("unknown_unit_refused")
					}
					pNU.Do(w, nuArg{v, unit})
				}
				center := ^uint64(0)
				if m := oracle.SizeUnits[map[bool]string{true: "B", false: unit}[unit == ""]]; m != nil {
					center = new(big.Int).Div(new(big.Int).SetUint64(^uint64(0)), m).Uint64()
				}
				for d := uint64(0); d <= span; d++ {
					do(d)
					if center >= d {
						do(center - d)
					}
					if center+d >= center {
						do(center + d)
					}
					do(^uint64(0) - d)
				}
				for k := uint(0); k < 64; k++ {
					do(1 << k)
					do(1<<k - 1)
					do(1<<k + 1)
				}
				for p := uint64(1); ; p *= 10 {
					do(p)
					do(p - 1)
					do(p + 1)
					if p > ^uint64(0)/10 {
						break
					}
				}
			})
		})
		r.Sample("new", nuArg{18014398509481984, "KiB"})
		// New over kinds
		kinds := map[string][]string{
			"int8":    {"0", "1", "-1", "127", "-128", "18", "19"},
			"int16":   {"0", "1", "-1", "32767", "-32768", "18014"},
			"myI16":   {"0", "1", "-1", "32767", "-32768"},
			"int32":   {"0", "1", "-1", "2147483647", "-2147483648", "16777216"},
			"int64":   {"0", "1", "-1", "9223372036854775807", "-9223372036854775808", "18014398509481983", "18014398509481984", "18446744073709551"},
			"int":     {"0", "1", "-1", "9223372036854775807", "-9223372036854775808", "18446744073709552", "15", "16"},
			"uint8":   {"0", "1", "255", "15", "16", "18", "19"},
			"uint16":  {"0", "1", "65535", "18446", "18447", "16383", "16384"},
			"uint32":  {"0", "1", "4294967295", "16777215", "16777216", "18446744", "18446745"},
			"myU32":   {"0", "1", "4294967295", "17179869", "17592186"},
			"uint64":  {"0", "1", "18446744073709551615", "9223372036854775808", "18014398509481983", "18014398509481984"},
			"uint":    {"0", "1", "18446744073709551615", "9223372036854775807"},
			"float32": {"0", "-0", "1", "-1", "0.5", "1.5", "0.001", "16777216", "16777217", "16777218", "3.4028234663852886e38", "-3.4028234663852886e38", "1e-45", "NaN", "+Inf", "-Inf", "9223372036854775808", "18446744073709551616", "18446742974197923840", "1e19", "1e20", "2.5", "1024", "1.0000001"},
			"myF32":   {"0", "-0", "1", "-1", "1.5", "NaN", "+Inf", "16777216", "18446744073709551616", "0.25"},
			"float64": {"0", "-0", "1", "-1", "0.5", "1.5", "0.001", "1e-300", "5e-324", "9007199254740991", "9007199254740992", "9007199254740993", "9007199254740994", "9223372036854775808", "18446744073709549568", "18446744073709551615", "18446744073709551616", "1e19", "1e20", "1.7976931348623157e308", "-1.7976931348623157e308", "NaN", "+Inf", "-Inf", "18014398509481984", "18014398509481985", "18014398509481986", "1.001", "0.125", "2.5", "1023.9999999999999", "-0.5", "-1e-300", "4611686018427387904", "1.5e3"},
			"myF64":   {"0", "-0", "1.5", "NaN", "-Inf", "9007199254740993", "18446744073709551616", "1e19", "0.001"},
		}
		type kv struct{ k, v string }
		var kvs []kv
		for k, vs := range kinds {
			for _, v := range vs {
				kvs = append(kvs, kv{k, v})
			}
		}
		allU := append(append([]string{}, units...), "XB", "kb", "K")
		r.Phase(fmt.Sprintf("New[N] over 16 numeric kinds (12 built-in + 4 derived): %d (kind, value) pairs x %d units", len(kvs), len(allU)), "complete grid", func() {
			r.Parallel(int64(len(kvs)), 1, func(w *mc.W, i int64) {
				for _, u := range allU {
					w.Point()
					w.NonTrivial()
					w.Outcome("kind " + kvs[i].k)
					pNK.Do(w, nkArg{kvs[i].k, kvs[i].v, u})
				}
			})
		})
		r.Sample("new_kind", nkArg{"float64", "18446744073709551616", ""})
		r.Phase("New[N]: every value of int8, uint8, int16, uint16, myI16 x 21 units; float32/float64 k/8 for k in -64..4096 x 21 units", "complete sweeps", func() {
			r.Parallel(65536, 256, func(w *mc.W, i int64) {
				for _, u := range allU {
					w.Points(3)
					pNK.Do(w, nkArg{"uint16", fmt.Sprint(i), u})
					pNK.Do(w, nkArg{"int16", fmt.Sprint(i - 32768), u})
					pNK.Do(w, nkArg{"myI16", fmt.Sprint(i - 32768), u})
					if i < 256 {
						w.Points(2)
						pNK.Do(w, nkArg{"uint8", fmt.Sprint(i), u})
						pNK.Do(w, nkArg{"int8", fmt.Sprint(i - 128), u})
					}
					if i <= 4160 {
						w.Points(2)
						f := fmt.Sprint(float64(i-64) / 8)
						pNK.Do(w, nkArg{"float64", f, u})
						pNK.Do(w, nkArg{"float32", f, u})
					}
				}
			})
		})
		// grammar generated texts
		seps := []string{"", " ", "_", " ", "  ", " _", "_ ", "\xa0", "  ", "__"}
		lead := []string{"", " ", "  "}
		tunits := []string{"", "B", "kB", "KiB", "EiB", "ZB", "XB", "kb", "MiB"}
		digs := []string{"0", "1", "7"}
		r.Phase("grammar texts: sp{0..2} d (sep d){0..3} sep unit sp{0..2}, sep from 10 separators at every gap, 3 digit values, 9 units", "complete cross product", func() {
			// number of digits 1..4; gaps = ndigits-1 between digits + 1 before unit
			for nd := 1; nd <= 4; nd++ {
				nd := nd
				gaps := nd
				total := int64(1)
				for i := 0; i < gaps; i++ {
					total *= int64(len(seps))
				}
				total *= int64(len(lead) * len(lead) * len(tunits))
				r.Parallel(total, 256, func(w *mc.W, idx int64) {
					x := idx
					tu := tunits[x%int64(len(tunits))]
					x /= int64(len(tunits))
					l1 := lead[x%3]
					x /= 3
					l2 := lead[x%3]
					x /= 3
					var sb strings.Builder
					sb.WriteString(l1)
					for d := 0; d < nd; d++ {
						sb.WriteString(digs[(d+int(idx))%len(digs)])
						sb.WriteString(seps[x%int64(len(seps))])
						x /= int64(len(seps))
					}
					sb.WriteString(tu)
					sb.WriteString(l2)
					s := sb.String()
					e := oracle.SizeText(s)
					w.Point()
					w.Outcome([]string{"text accept", "text reject", "text dontcare"}[e.Class])
					if e.Class == oracle.SAccept {
						w.NonTrivial()
					}
					pTX.Do(w, txArg{In: mc.Bin(s)})
				})
			}
		})
		r.Sample("text", txArg{In: " 1_024 KiB  "})
		r.Phase("serial: all histories of two text-parser calls over 30 texts (the second call is judged; the caller reuses one buffer)", "complete for depth 2 over the listed texts", func() {
			texts := []string{"1", "2", "10", "1kB", "1KiB", "2KiB", "1 KiB", "1KiB ", "1 024 KiB", "1 024 MiB", "16EiB", "17EiB", "0ZB", "1ZB", "1XB", "", " ", "kB", "-1", "1.5", "18446744073709551615", "18446744073709551616", "1_000", "1_001", "007", "7", "1kb", "1 kB", "1  kB", "12B"}
			r.Serial(func(w *mc.W) {
				for _, x := range texts {
					for _, y := range texts {
						for via := 0; via < 3; via++ {
							w.Point()
							px := mc.Bin(x)
							pTX.Do(w, txArg{In: mc.Bin(y), Prev: &px, Via: via})
						}
					}
				}
			})
		})
		// all short strings over a symbol alphabet
		syms := []string{"0", "1", "9", " ", "_", " ", "k", "B", "K", "i", "-", "."}
		maxL := 6
		if !r.Quick() {
			maxL = 7
		}
		idxAlpha := make([]byte, len(syms))
		for i := range idxAlpha {
			idxAlpha[i] = byte(i)
		}
		r.Phase(fmt.Sprintf("all symbol strings of length 0..%d over {0,1,9,space,_,NBSP,k,B,K,i,-,.}", maxL), "complete", func() {
			r.Strings(idxAlpha, 0, maxL, func(w *mc.W, ix []byte) {
				var sb strings.Builder
				for _, i := range ix {
					sb.WriteString(syms[i])
				}
				s := sb.String()
				e := oracle.SizeText(s)
				w.Point()
				if e.Class == oracle.SAccept {
					w.NonTrivial()
				}
				pTX.Do(w, txArg{In: mc.Bin(s)})
			})
		})
		// long numbers
		r.Phase("numbers around 2^64 with separators, leading zeros, 1-deviation mutants (all 256 byte values) of 12 valid texts", "complete for the stated set", func() {
			bases := []string{"18446744073709551615", "18446744073709551616", "18 446 744 073 709 551 615", "18_446_744_073_709_551_615B", "0018446744073709551615", "16EiB", "15EiB", "17EiB", "18446744073709551kB", "18446744073709552kB", "1 024 KiB", "0YiB", "1 kB", "000", "0 ZiB", "1 000 MB"}
			r.Parallel(int64(len(bases)), 1, func(w *mc.W, i int64) {
				f := func(m []byte) {
					w.Point()
					if oracle.SizeText(string(m)).Class == oracle.SAccept {
						w.NonTrivial()
					}
					pTX.Do(w, txArg{In: mc.Bin(m)})
				}
				f([]byte(bases[i]))
				if i == 0 {
					for _, sw := range mc.SpecialWords {
						f([]byte(sw))
					}
				}
				mc.Mutations1([]byte(bases[i]), mc.AllBytes, f)
				mc.MutationsTok([]byte(bases[i]), mc.Lookalikes, f)
			})
		})
		r.Phase("long texts within the length limit: zero-padded digit runs of every length, long separator runs, separators between every digit", "complete grid", func() {
			r.Parallel(127, 1, func(w *mc.W, k int64) {
				do := func(s string) {
					if len(s) > 128 {
						return
					}
					w.Point()
					if oracle.SizeText(s).Class == oracle.SAccept {
						w.NonTrivial()
					}
					pTX.Do(w, txArg{In: mc.Bin(s)})
				}
				z := strings.Repeat("0", int(k))
				for _, tail := range []string{"", "1", "12", "1234", "18446744073709551615", "18446744073709551616", "25 kB", "7KiB", "16EiB", "17EiB", "9 9", "1ZB"} {
					do(z + tail)
					do(" " + z + tail + " ")
				}
				for _, sep := range []string{" ", "_", "\u00a0", " _"} {
					do("1" + strings.Repeat(sep, int(k)) + "kB")
					do("1" + strings.Repeat(sep, int(k)) + "2")
					do(strings.Repeat(" ", int(k)) + "5B" + strings.Repeat(" ", int(k)/2))
					var sb strings.Builder
					for i := 0; i < int(k) && i < 20; i++ {
						sb.WriteString(string(rune('0' + (i+1)%10)))
						sb.WriteString(sep)
					}
					do(sb.String() + "B")
					do(sb.String())
				}
			})
		})
		for _, ml := range []int{0, 10, 1000, 129} {
			ml := ml
			r.Phase(fmt.Sprintf("MaxInputLength=%d: zero-padded digit runs and separator runs of every length 0..400", ml), "complete grid", func() {
				setupTX(txArg{Max: &ml})
				r.Parallel(401, 4, func(w *mc.W, k int64) {
					z := strings.Repeat("0", int(k))
					for _, s := range []string{z + "1", z + "12kB", z + "18446744073709551615", z + "18446744073709551616", "7" + strings.Repeat(" ", int(k)) + "KiB", " " + z + "5 B ", strings.Repeat("1 ", int(k)/20) + "B"} {
						w.Point()
						pTX.Do(w, txArg{In: mc.Bin(s), Max: &ml})
					}
				})
				reset()
			})
		}
		// Bytes[N]
		var bvals []uint64
		addb := func(v uint64) { bvals = append(bvals, v) }
		for k := uint(0); k < 64; k++ {
			for d := uint64(0); d <= 2; d++ {
				addb(1<<k - d)
				addb(1<<k + d)
			}
		}
		for d := uint64(0); d < 4100; d++ {
			addb(^uint64(0) - d)
			addb(d)
			addb(1<<53 + d)
			addb(1<<53 - d)
			addb(1<<24 + d)
			addb(1<<24 - d)
			addb(1<<63 + d)
			addb(1<<63 - d)
		}
		for _, o := range []uint64{(1 << 24) - 1, (1 << 24) + 1, (1 << 53) - 1, (1 << 53) + 1, 3, 5, 0xffffff, 0x1fffffffffffff} {
			for k := uint(0); k < 64; k++ {
				if o<<k>>k == o {
					addb(o << k)
				}
			}
		}
		bkinds := []string{"int", "int8", "int16", "int32", "int64", "myI16", "uint", "uint8", "uint16", "uint32", "uint64", "myU32", "float32", "myF32", "float64", "myF64"}
		r.Phase(fmt.Sprintf("Bytes[N]: 16 kinds x %d sizes (type maxima +-2, 2^24/2^53/2^63 +-4100, 2^64-4100..2^64-1, odd x 2^k)", len(bvals)), "complete grid", func() {
			r.Parallel(int64(len(bvals)), 64, func(w *mc.W, i int64) {
				for _, k := range bkinds {
					w.Point()
					w.NonTrivial()
					pBY.Do(w, byArg{k, bvals[i]})
				}
			})
			r.Serial(func(w *mc.W) {
				w.Point()
				w.Outcome("constraint helpers")
				pC.Do(w, cArg{})
			})
		})
		r.Sample("bytes", byArg{"float64", 18446744073709551615})
	})
}
