// C03: SemVer text is accepted exactly per the 2.0.0 grammar and round-trips.
package main

import (
	"errors"
	"fmt"
	"strconv"
	"strings"

	"go.lstv.dev/util/sem"
	"verif/firstuse"
	"verif/libdefaults"
	"verif/mc"
	"verif/oracle"
)

func reset() {
	libdefaults.Sem()
}

// typedFor: the parse error is typed by the kind of input that was passed (ParseError[T].Input has the caller's type)
func typedFor(err error, bytesInput bool) bool {
	if bytesInput {
		var b *sem.ParseError[[]byte]
		return errors.As(err, &b)
	}
	var a *sem.ParseError[string]
	return errors.As(err, &a)
}

type arg struct {
	In   mc.Bin  `json:"in"`
	Prev *mc.Bin `json:"previous_call,omitempty"` // history of depth 2: this text is parsed first, on the buffer that is then reused for In
	Via  int     `json:"previous_via,omitempty"`  // which single call is made first: 2*entry + (0 string | 1 []byte on the shared buffer)
}

// tag policy per entry point: 0 optional, 1 forbidden, 2 required
var entries = []struct {
	name   string
	policy int
	str    func(string) (sem.Ver, error)
	byt    func([]byte) (sem.Ver, error)
}{
	{"Parse", 0, sem.Parse[string], sem.Parse[[]byte]},
	{"ParseVersion", 1, sem.ParseVersion[string], sem.ParseVersion[[]byte]},
	{"ParseTag", 2, sem.ParseTag[string], sem.ParseTag[[]byte]},
	{"DefaultParser(rule 0)", 0, func(s string) (sem.Ver, error) { return sem.DefaultParser(s, 0) }, func(b []byte) (sem.Ver, error) { return sem.DefaultParser(b, 0) }},
	{"DefaultParser(RuleDisableTag)", 1, func(s string) (sem.Ver, error) { return sem.DefaultParser(s, sem.RuleDisableTag) }, func(b []byte) (sem.Ver, error) { return sem.DefaultParser(b, sem.RuleDisableTag) }},
	{"UnmarshalText", 0, nil, func(b []byte) (sem.Ver, error) {
		v := sem.Ver{Major: 7, Minor: 7, Patch: 7, PreRelease: "keep", Build: "me"}
		err := v.UnmarshalText(b)
		if err != nil {
			if v != (sem.Ver{Major: 7, Minor: 7, Patch: 7, PreRelease: "keep", Build: "me"}) {
				return v, fmt.Errorf("RECEIVER-MODIFIED: %w", err)
			}
			return sem.Ver{}, err
		}
		return v, nil
	}},
}

func expectFor(in string, policy int) (accept bool, sv oracle.Semver, tag bool) {
	// the length limit in force in the default configuration is the library's own (the statement does not mention it)
	if lim := libdefaults.SemMaxInputLength; len(in) == 0 || lim != 0 && len(in) > lim {
		return false, sv, false
	}
	body := in
	if in[0] == 'v' {
		tag = true
		body = in[1:]
	}
	if tag && policy == 1 || !tag && policy == 2 {
		return false, sv, tag
	}
	sv = oracle.SemverParse(body)
	return sv.OK && sv.Overflow == 0, sv, tag
}

func probe(a arg) (string, string) {
	in := string(a.In)
	var histBuf []byte // history of depth 2: the previous call's buffer, reused (overwritten in place) for the []byte paths
	if a.Prev != nil {
		histBuf = make([]byte, 0, 2048)
		histBuf = append(histBuf, *a.Prev...)
		e := entries[a.Via/2%len(entries)] // exactly one previous call, so that no other call disturbs whatever state it may leave behind
		if a.Via%2 == 0 && e.str != nil {
			_, _ = e.str(string(*a.Prev))
		} else {
			_, _ = e.byt(histBuf)
		}
	}
	for _, e := range entries {
		accept, sv, tag := expectFor(in, e.policy)
		for kk := 0; kk < 2; kk++ {
			k := kk
			if histBuf != nil { // history: the reused buffer is parsed first, directly after the previous call
				k = 1 - kk
			}
			var v sem.Ver
			var err error
			var scribbled []byte
			if k == 0 {
				if e.str == nil {
					continue
				}
				v, err = e.str(in)
			} else {
				cp := []byte(in)
				if histBuf != nil {
					cp = append(histBuf[:0], in...)
				}
				v, err = e.byt(cp)
				scribbled = cp
			}
			path := e.name + map[int]string{0: "[string]", 1: "[[]byte]"}[k]
			if accept {
				if err != nil {
					return "grammatical_text_rejected", fmt.Sprintf("%s(%q) rejected: %v", path, in, err)
				}
				for i := range scribbled { // the caller goes on to reuse its buffer: the parsed texts must be the caller-independent literal texts
					scribbled[i] = '#'
				}
				if strconv.FormatUint(v.Major, 10) != sv.Major || strconv.FormatUint(v.Minor, 10) != sv.Minor || strconv.FormatUint(v.Patch, 10) != sv.Patch || v.PreRelease != sv.Pre || v.Build != sv.Build {
					return "wrong_components", fmt.Sprintf("%s(%q) = %+v; written %s.%s.%s pre=%q build=%q", path, in, v, sv.Major, sv.Minor, sv.Patch, sv.Pre, sv.Build)
				}
				f := sem.Format(0)
				if tag {
					f = sem.FormatTag
				}
				out, ferr := sem.DefaultFormatter(nil, v, f)
				if ferr != nil || string(out) != in {
					return "format_not_byte_exact", fmt.Sprintf("%s(%q) formats back as %q (%v)", path, in, out, ferr)
				}
				for _, spare := range []int{1, len(in), len(in) + 1, 64} { // byte-exact also into a buffer with spare capacity
					if out, ferr := sem.DefaultFormatter(make([]byte, 0, spare), v, f); ferr != nil || string(out) != in {
						return "format_not_byte_exact", fmt.Sprintf("%s(%q) formats back into a buffer of capacity %d as %q (%v)", path, in, spare, out, ferr)
					}
				}
				if verr := v.Valid(); verr != nil {
					return "parsed_value_not_valid", fmt.Sprintf("%s(%q).Valid() = %v", path, in, verr)
				}
				continue
			}
			if err == nil {
				why := "not in the SemVer 2.0.0 grammar"
				if sv.OK && sv.Overflow != 0 {
					why = "a numeric component exceeds 2^64-1"
				} else if sv.OK || (tag && e.policy == 1) || (!tag && e.policy == 2) {
					why = "the leading 'v' is not allowed/required for this entry point"
				}
				return "ungrammatical_text_accepted", fmt.Sprintf("%s(%q) accepted as %+v; %s", path, in, v, why)
			}
			if strings.HasPrefix(err.Error(), "RECEIVER-MODIFIED") {
				v = sem.Ver{} // receiver integrity after a failed call is C17's business, not judged here
			}
			if v != (sem.Ver{}) {
				return "nonzero_result_with_error", fmt.Sprintf("%s(%q) = %+v with %v", path, in, v, err)
			}
			if !typedFor(err, k == 1) {
				return "untyped_error", fmt.Sprintf("%s(%q): %T %v is not a *sem.ParseError of the input's type", path, in, err, err)
			}
		}
	}
	// named string / byte-slice input types behave like the plain ones
	{
		type namedS string
		type namedB []byte
		pv, pe := sem.Parse(in)
		nv, ne := sem.Parse(namedS(in))
		bv, be := sem.Parse(namedB(in))
		if nv != pv || bv != pv || (ne == nil) != (pe == nil) || (be == nil) != (pe == nil) {
			return "named_type_differs", fmt.Sprintf("Parse(%q): plain %+v,%v named string %+v,%v named []byte %+v,%v", in, pv, pe, nv, ne, bv, be)
		}
		tv, te := sem.ParseTag(in)
		ntv, nte := sem.ParseTag(namedS(in))
		vv, ve := sem.ParseVersion(in)
		nvv, nve := sem.ParseVersion(namedB(in))
		if ntv != tv || (nte == nil) != (te == nil) || nvv != vv || (nve == nil) != (ve == nil) {
			return "named_type_differs", fmt.Sprintf("ParseTag/ParseVersion(%q) differ between plain and named input types", in)
		}
	}
	// methods of an accepted value
	if accept, _, tag := expectFor(in, 0); accept {
		v, _ := sem.Parse(in)
		plain := in
		if tag {
			plain = in[1:]
		}
		if v.String() != plain || v.StringTag() != "v"+plain {
			return "string_methods", fmt.Sprintf("Parse(%q): String=%q StringTag=%q", in, v.String(), v.StringTag())
		}
		if b, err := v.MarshalText(); err != nil || string(b) != plain {
			return "marshaltext", fmt.Sprintf("Parse(%q).MarshalText = %q, %v", in, b, err)
		}
		if s := fmt.Sprintf("%s|%t", v, v); s != plain+"|v"+plain {
			return "verbs", fmt.Sprintf("Parse(%q): %%s|%%t = %q", in, s)
		}
	}
	return "", ""
}

// texts under a non-default MaxInputLength: accepted iff grammatical and (limit == 0 or len <= limit)
type limArg struct {
	In  mc.Bin `json:"in"`
	Max int    `json:"max_input_length"`
}

func probeLimit(a limArg) (string, string) {
	in := string(a.In)
	body := strings.TrimPrefix(in, "v")
	sv := oracle.SemverParse(body)
	want := sv.OK && sv.Overflow == 0 && (a.Max == 0 || len(in) <= a.Max)
	for i, f := range []func() (sem.Ver, error){func() (sem.Ver, error) { return sem.Parse(in) }, func() (sem.Ver, error) { return sem.Parse([]byte(in)) }, func() (sem.Ver, error) { return sem.DefaultParser(in, 0) },
		func() (sem.Ver, error) { var v sem.Ver; err := v.UnmarshalText([]byte(in)); return v, err }} {
		v, err := f()
		if want != (err == nil) {
			return "limit_configuration", fmt.Sprintf("entry %d with MaxInputLength=%d on a %d-byte text %.40q...: err=%v, expected accepted=%v", i, a.Max, len(in), in, err, want)
		}
		if err == nil && (v.String() != body) {
			return "limit_configuration_value", fmt.Sprintf("entry %d with MaxInputLength=%d: %.40q... formats back as %.40q", i, a.Max, in, v.String())
		}
	}
	return "", ""
}

type flightArg struct {
	A string `json:"a"`
	B string `json:"b"`
}

// results of one call (formatted text, parsed value) must not change when another call follows
func probeFlight(p flightArg) (string, string) {
	va, e1 := sem.Parse(p.A)
	keepPre, keepBuild := va.PreRelease, va.Build
	vb, e2 := sem.Parse([]byte(p.B))
	if e1 != nil || e2 != nil {
		return "", ""
	}
	if va.PreRelease != keepPre || va.Build != keepBuild || va.String() != strings.TrimPrefix(p.A, "v") {
		return "value_changed_by_later_call", fmt.Sprintf("Parse(%q) kept across Parse(%q) now formats as %q", p.A, p.B, va.String())
	}
	ta, _ := va.MarshalText()
	tb, _ := vb.MarshalText()
	fa, _ := sem.DefaultFormatter(nil, va, sem.FormatTag)
	fb, _ := sem.DefaultFormatter(nil, vb, 0)
	wa, wb := strings.TrimPrefix(p.A, "v"), strings.TrimPrefix(p.B, "v")
	if string(ta) != wa || string(tb) != wb || string(fa) != "v"+wa || string(fb) != wb {
		return "text_overwritten_by_later_call", fmt.Sprintf("texts of %q and %q kept across later calls read %q, %q, %q, %q", p.A, p.B, ta, tb, fa, fb)
	}
	// the caller may write into a returned slice: later calls must not be affected by that
	defer mc.Scribble(ta, tb, fa, fb)()
	ta2, _ := va.MarshalText()
	fb2, _ := sem.DefaultFormatter(nil, vb, 0)
	if string(ta2) != wa || string(fb2) != wb || va.String() != wa || vb.StringTag() != "v"+wb {
		return "text_affected_by_caller_writing_into_earlier_result", fmt.Sprintf("after the caller overwrote earlier results: MarshalText = %q (want %q), DefaultFormatter = %q (want %q)", ta2, wa, fb2, wb)
	}
	return "", ""
}

type verArg struct {
	Core  int    `json:"core"`
	Pre   mc.Bin `json:"pre"`
	Build mc.Bin `json:"build"`
}

var cores = [][3]uint64{{1, 0, 0}, {0, 10, 18446744073709551615}}

func probeValid(a verArg) (string, string) {
	c := cores[a.Core]
	v := sem.Ver{Major: c[0], Minor: c[1], Patch: c[2], PreRelease: string(a.Pre), Build: string(a.Build)}
	wantValid := (v.PreRelease == "" || oracle.PreValid(v.PreRelease)) && (v.Build == "" || oracle.BuildValid(v.Build))
	verr := v.Valid()
	text := v.String()
	if lim := libdefaults.SemMaxInputLength; lim != 0 && len(text) > lim {
		return "", "" // longer than the parser's limit in force: the round trip cannot be asked for (the limit is C18's business)
	}
	back, perr := sem.Parse(text)
	round := perr == nil && back == v
	if (verr == nil) != round {
		return "valid_vs_roundtrip", fmt.Sprintf("Ver%+v: Valid() = %v but Parse(String()=%q) = %+v, %v (round trip %v)", v, verr, text, back, perr, round)
	}
	if (verr == nil) != wantValid {
		return "valid_vs_grammar", fmt.Sprintf("Ver%+v: Valid() = %v, grammar says valid=%v", v, verr, wantValid)
	}
	if verr != nil {
		preBad := v.PreRelease != "" && !oracle.PreValid(v.PreRelease)
		if preBad && !errors.Is(verr, sem.ErrInvalidPreRelease) && !errors.Is(verr, sem.ErrInvalidBuild) {
			return "valid_error_class", fmt.Sprintf("Ver%+v: Valid() = %v", v, verr)
		}
	}
	return "", ""
}

func main() {
	mc.Main("C03", "all strings over {0,1,9,a,Z,-,.,+,v} up to the stated length, core/suffix/number grids, 1-deviation mutants, through 6 entry points x {string,[]byte}; Valid<=>round-trip over all (pre-release, build) pairs of short symbol strings; "+
		"non-trivial = the reference recogniser accepts the text for at least one entry point", func(r *mc.Run) {
		firstuse.Phase(r, map[string][]string{"sem": {"parse", "format", "valid"}})
		r.Reset = reset
		reset()
		p := mc.NewProbe(r, "parse", nil, probe)
		pv := mc.NewProbe(r, "valid_roundtrip", nil, probeValid)
		pm := mc.NewProbe(r, "limit_configuration", func(a limArg) { sem.MaxInputLength = a.Max }, probeLimit)
		r.Assume("reference: recursive-descent recogniser of the semver.org BNF (split at first '+', then first '-'; numeric identifiers without leading zeros; build identifiers may have leading zeros), uint64 limit by decimal-string comparison; no regexp")
		r.Assume("rejections must be typed (*sem.ParseError instantiated with the type of the input that was passed) with a zero Ver; which sentinel is wrapped is not constrained (the statement does not name one)")
		one := func(w *mc.W, s []byte) {
			w.Point()
			acc, sv, _ := expectFor(string(s), 0)
			switch {
			case acc:
				w.NonTrivial()
				w.Outcome("accept")
			case sv.OK:
				w.Outcome("reject_overflow")
			default:
				w.Outcome("reject")
			}
			p.Do(w, arg{In: mc.Bin(s)})
		}
		pfl := mc.NewProbe(r, "two_results_in_flight", nil, probeFlight)
		r.Phase("serial: two results in flight (formatted text and parsed value must survive later calls), all ordered pairs of 12 versions", "complete for the listed versions", func() {
			r.Serial(func(w *mc.W) {
				vs := []string{"1.2.3", "v1.2.3-rc.1+b.5", "0.0.0", "10.20.30-alpha", "v2.0.0+meta", "18446744073709551615.0.1--", "1.0.0-a.b.c+x.y.z", "3.3.3-0", "v0.0.1", "1.1.1-x-y-z", "9.9.9+001", "v7.0.0-beta.11"}
				for _, a := range vs {
					for _, b := range vs {
						w.Point()
						pfl.Do(w, flightArg{a, b})
					}
				}
			})
		})
		r.Phase("serial: all histories of two calls over 24 texts (the second call is judged on every entry point; the caller reuses one buffer)", "complete for depth 2 over the listed texts", func() {
			texts := []string{"1.2.3-alpha.beta.gamma.delta+build.0001.sha", "v1.2.3-alpha.beta.gamma.delta+build.0001.sha", "1.2.3-alpha.beta.gamma.delta+build.0001.shb", "10.20.30-x-y-z.0.1.2.3.4.5.6.7.8.9", "v10.20.30-x-y-z.0.1.2.3.4.5.6.7.8.9",
				"1.2.3", "1.2.4", "v1.2.3", "1.2.3-rc.1", "1.2.3-rc.2", "1.2.3+b1", "1.2.3+b2", "1.2.3-a+b", "1.2.3-a+c", "v1.2.3-a", "1.2", "1.2.x", "", "v", "01.2.3", "1.2.3-01", "1.2.3-", "9.9.9", "9.9.8",
				"18446744073709551615.0.0", "18446744073709551616.0.0", "1.2.3-zz", "1.2.3-zy", "v9.9.9+zz"}
			r.Serial(func(w *mc.W) {
				for _, x := range texts {
					for _, y := range texts {
						for via := 0; via < 2*len(entries); via++ {
							w.Point()
							px := mc.Bin(x)
							p.Do(w, arg{In: mc.Bin(y), Prev: &px, Via: via})
						}
					}
				}
			})
		})
		L := 7
		if !r.Quick() {
			L = 8
		}
		r.Phase(fmt.Sprintf("all strings over {0,1,9,a,Z,-,.,+,v} of length 0..%d x 6 entry points x {string,[]byte}", L), "complete", func() {
			r.Strings([]byte("019aZ-.+v"), 0, L, one)
		})
		r.Sample("string", arg{In: "v1.0.0-a"})
		SL := 6
		if !r.Quick() {
			SL = 7
		}
		r.Phase(fmt.Sprintf("cores {1.0.0, v1.0.0, 10.0.19} + every suffix over {0,1,a,Z,-,.,+} of length 0..%d", SL), "complete", func() {
			for _, core := range []string{"1.0.0", "v1.0.0", "10.0.19"} {
				core := core
				r.Strings([]byte("01aZ-.+"), 0, SL, func(w *mc.W, s []byte) {
					one(w, append([]byte(core), s...))
				})
			}
		})
		r.Sample("suffix", arg{In: "1.0.0-0.a+01.-"})
		CL := 9
		if !r.Quick() {
			CL = 10
		}
		r.Phase(fmt.Sprintf("all core-shaped strings over {0,1,9,.,v} of length 0..%d", CL), "complete", func() {
			r.Strings([]byte("019.v"), 0, CL, one)
		})
		// numbers of every digit count: 10^k, 10^k-1, 10^k+1, d*10^k (formatting/parsing code that works in digit groups)
		var pw []string
		for k := 1; k <= 19; k++ {
			z := strings.Repeat("0", k)
			pw = append(pw, "1"+z, strings.Repeat("9", k), "1"+z[:k-1]+"1", "7"+z)
		}
		r.Phase(fmt.Sprintf("numeric components of every digit count: %d numbers (10^k, 10^k-1, 10^k+1, 7*10^k) in each of the three positions x suffixes x tag", len(pw)), "complete", func() {
			r.Parallel(int64(len(pw)), 1, func(w *mc.W, i int64) {
				x := pw[i]
				for _, y := range []string{"0", "1", "1000000000", "4294967296"} {
					for _, s := range []string{"", "-rc.1000000000", "+1000000000", "-a+b"} {
						for _, t := range []string{"", "v"} {
							one(w, []byte(t+x+"."+y+"."+y+s))
							one(w, []byte(t+y+"."+x+"."+y+s))
							one(w, []byte(t+y+"."+y+"."+x+s))
						}
					}
				}
			})
		})
		nums := []string{"0", "1", "9", "10", "18446744073709551614", "18446744073709551615", "18446744073709551616", "18446744073709551617", "10000000000000000000", "99999999999999999999", "1234567890123456789012345", "00", "01", "09", "18446744073709551625", "28446744073709551615", "", "-1", "1e1"}
		sufs := []string{"", "-a", "+b", "-a+b", "-1.0.0", "+1.0.0", "-18446744073709551616", "+18446744073709551616", "-01", "+01"}
		r.Phase(fmt.Sprintf("numeric components: %d^3 cross x %d suffixes x {no tag, tag}", len(nums), len(sufs)), "complete cross product", func() {
			n := int64(len(nums))
			r.Parallel(n*n*n, 16, func(w *mc.W, i int64) {
				a, b, c := nums[i%n], nums[i/n%n], nums[i/n/n]
				for _, s := range sufs {
					one(w, []byte(a+"."+b+"."+c+s))
					one(w, []byte("v"+a+"."+b+"."+c+s))
				}
			})
		})
		r.Sample("number", arg{In: "0.18446744073709551616.0"})
		valid := []string{"0.0.0", "1.2.3", "v1.2.3", "1.0.0-alpha", "1.0.0-alpha.1", "1.0.0-0.3.7", "1.0.0-x.7.z.92", "1.0.0-x-y-z.--", "1.0.0-alpha+001", "1.0.0+20130313144700", "1.0.0-beta+exp.sha.5114f85", "1.0.0+21AF26D3----117B344092BD",
			"v10.20.30-rc.1+build.5", "18446744073709551615.18446744073709551615.18446744073709551615", "1.0.0--", "1.0.0+-", "1.0.0-a.b.c", "v0.0.0-0", "2.0.0-rc.1+b", "1.0.0-0A", "1.0.0-A0", "1.0.0-1a.2b", "1.0.0+0.0.00", "v1.0.0-Z.z", "1.1.2-prerelease+meta",
			"1.1.2+meta-valid", "1.0.0-alpha-a.b-c-somethinglong+build.1-aef.1-its-okay", "1.0.0-rc.1+build.1", "2.0.0+build.1848", "2.0.1-alpha.1227", "1.2.3----RC-SNAPSHOT.12.9.1--.12+788", "1.2.3----R-S.12.9.1--.12+meta", "1.0.0-0A.is.legal", "10.2.3-DEV-SNAPSHOT", "1.2.3-SNAPSHOT-123", "1.0.0-9", "1.0.0-90", "v9.9.9", "0.1.0", "1.10.100"}
		r.Phase(fmt.Sprintf("special words (null, nil, true, NaN, {}, ...) and 1-deviation mutants (substitute/insert all 256 byte values, delete, trailing newline) of %d valid texts", len(valid)), "complete for 1 deviation", func() {
			r.Parallel(int64(len(valid)), 1, func(w *mc.W, i int64) {
				one(w, []byte(valid[i]))
				one(w, []byte(valid[i]+"\n"))
				if i == 0 {
					for _, sw := range mc.SpecialWords {
						one(w, []byte(sw))
					}
				}
				mc.Mutations1([]byte(valid[i]), mc.AllBytes, func(m []byte) { one(w, m) })
				mc.MutationsTok([]byte(valid[i]), mc.Lookalikes, func(m []byte) { one(w, m) })
			})
		})
		r.Sample("mutant", arg{In: "1.0.0-alpha\n"})
		for _, ml := range []int{0, 20, 2000} {
			ml := ml
			r.Phase(fmt.Sprintf("MaxInputLength=%d: valid-shaped texts of length 10..40 and 1015..2010 (step), with and without tag", ml), "complete grid", func() {
				sem.MaxInputLength = ml
				r.Serial(func(w *mc.W) {
					for l := 10; l <= 2010; l++ {
						if l > 40 && l < 1015 || l > 1035 && l < 1995 {
							continue
						}
						for _, s := range []string{"1.0.0-" + strings.Repeat("a", l-6), "v1.0.0+" + strings.Repeat("0", l-7)} {
							w.Point()
							pm.Do(w, limArg{In: mc.Bin(s), Max: ml})
						}
					}
				})
				reset()
			})
		}
		L0 := libdefaults.SemMaxInputLength
		if L0 < 16 {
			L0 = 1024
		}
		r.Phase(fmt.Sprintf("length limit in force by default (%d): texts of length %d..%d (valid shape) ", libdefaults.SemMaxInputLength, L0-6, L0+6), "complete grid", func() {
			r.Serial(func(w *mc.W) {
				for l := L0 - 6; l <= L0+6; l++ {
					one(w, []byte("1.0.0-"+strings.Repeat("a", l-6)))
					one(w, []byte("v1.0.0+"+strings.Repeat("0", l-7)))
				}
			})
		})
		// Valid <=> round trip
		syms := []string{"0", "1", "a", "-", ".", "+", "é"}
		VL := 4
		var strs []string
		var gen func(cur string, n int)
		gen = func(cur string, n int) {
			strs = append(strs, cur)
			if n == VL {
				return
			}
			for _, s := range syms {
				gen(cur+s, n+1)
			}
		}
		gen("", 0)
		r.Phase(fmt.Sprintf("Valid() <=> Parse(String()) == v: all (pre-release, build) pairs of the %d symbol strings of length 0..%d over {0,1,a,-,.,+,é} x 2 cores", len(strs), VL), "complete", func() {
			n := int64(len(strs))
			r.Parallel(n, 1, func(w *mc.W, i int64) {
				for j := range strs {
					for c := range cores {
						w.Point()
						if (strs[i] == "" || oracle.PreValid(strs[i])) && (strs[j] == "" || oracle.BuildValid(strs[j])) {
							w.NonTrivial()
							w.Outcome("ver valid")
						} else {
							w.Outcome("ver invalid")
						}
						pv.Do(w, verArg{c, mc.Bin(strs[i]), mc.Bin(strs[j])})
					}
				}
			})
		})
		r.Phase("Valid() <=> Parse(String()) == v: pre-release and build fields with long identifiers (all-digit identifiers of 18..25 digits with and without a leading zero, mixed into lists, long alphanumerics)", "complete over the listed fields", func() {
			var big []string
			for _, digits := range []int{18, 19, 20, 21, 25} {
				nz := "2" + strings.Repeat("0", digits-2) + "7"
				big = append(big, nz, "0"+nz[1:], "rc."+nz, "rc.0"+nz[1:], nz+".x", "0"+nz[1:]+"a", nz+"-", "00"+nz[2:])
			}
			big = append(big, "18446744073709551615", "18446744073709551616", "018446744073709551616", strings.Repeat("a", 300), "0."+strings.Repeat("9", 40), "00."+strings.Repeat("9", 40), "")
			r.Parallel(int64(len(big)), 1, func(w *mc.W, i int64) {
				for j := range big {
					for c := range cores {
						w.Point()
						w.NonTrivial()
						pv.Do(w, verArg{c, mc.Bin(big[i]), mc.Bin(big[j])})
					}
				}
				w.Outcome("ver long identifiers")
			})
		})
		r.Sample("ver", verArg{0, "a+b", ""})
	})
}
