// C15: the date range filter contains exactly the inclusive interval.
package main

import (
	"errors"
	"fmt"
	"time"
	_ "time/tzdata"

	"go.lstv.dev/util/date"
	"verif/firstuse"
	"verif/mc"
	"verif/oracle"
)

type ymd struct {
	Y int64 `json:"y"`
	M int   `json:"m"`
	D int   `json:"d"`
}

func (a ymd) date() date.Date { return date.New(int(a.Y), date.Month(a.M), a.D) }
func (a ymd) ord() int64      { return oracle.Ordinal(a.Y, a.M, a.D) }

var defaultLocal = time.Local

func setup(a arg) {
	time.Local = defaultLocal
	if loc, err := time.LoadLocation(a.Zone); err == nil && a.Zone != "" {
		time.Local = loc
	}
}

type arg struct {
	Zone     string `json:"time_local,omitempty"` // the process's local zone during the call ("" = unchanged)
	From     *ymd   `json:"from"`
	To       *ymd   `json:"to"`
	Probes   []ymd  `json:"probes"`
	Scribble ymd    `json:"scribble"` // value written into the caller's variables after construction
}

func probe(a arg) (string, string) {
	var fp, tp *date.Date
	var fv, tv date.Date
	if a.From != nil {
		fv = a.From.date()
		fp = &fv
	}
	if a.To != nil {
		tv = a.To.date()
		tp = &tv
	}
	f, err := date.FilterFromTo(fp, tp)
	wantErr := a.From != nil && a.To != nil && a.From.ord() > a.To.ord()
	if wantErr {
		if err == nil || !errors.Is(err, date.ErrInvalidFromOrTo) || f != nil {
			return "inverted_bounds_not_refused", fmt.Sprintf("FilterFromTo(%v,%v) = %v, %v", a.From, a.To, f, err)
		}
		return "", ""
	}
	if err != nil || f == nil {
		return "valid_bounds_refused", fmt.Sprintf("FilterFromTo(%v,%v) = %v, %v", a.From, a.To, f, err)
	}
	check := func(stage string) (string, string) {
		for _, p := range a.Probes {
			want := (a.From == nil || p.ord() >= a.From.ord()) && (a.To == nil || p.ord() <= a.To.ord())
			if got := f.Contains(p.date()); got != want {
				return "contains_" + stage, fmt.Sprintf("filter(%v..%v).Contains(%v) = %v want %v (%s)", a.From, a.To, p, got, want, stage)
			}
		}
		return "", ""
	}
	if k, d := check("fresh"); k != "" {
		return k, d
	}
	// the caller's variables change afterwards: the filter must keep its bounds
	fv = a.Scribble.date()
	tv = a.Scribble.date()
	if k, d := check("after_caller_variables_changed"); k != "" {
		return k, d
	}
	return "", ""
}

// history of depth 2: two filters built one after the other must both keep their own bounds
type histArg struct {
	F1, T1, F2, T2 *ymd
	Probes         []ymd `json:"probes"`
}

func probeHist(h histArg) (string, string) {
	build := func(f, t *ymd) (date.Filter, *date.Date, *date.Date) {
		var fp, tp *date.Date
		if f != nil {
			v := f.date()
			fp = &v
		}
		if t != nil {
			v := t.date()
			tp = &v
		}
		fl, _ := date.FilterFromTo(fp, tp)
		return fl, fp, tp
	}
	f1, _, _ := build(h.F1, h.T1)
	f2, _, _ := build(h.F2, h.T2)
	for i, c := range []struct {
		fl   date.Filter
		f, t *ymd
	}{{f1, h.F1, h.T1}, {f2, h.F2, h.T2}} {
		bad := c.f != nil && c.t != nil && c.f.ord() > c.t.ord()
		if bad != (c.fl == nil) {
			return "after_other_construction:refusal", fmt.Sprintf("filter %d (%v..%v) built=%v", i+1, c.f, c.t, c.fl != nil)
		}
		if c.fl == nil {
			continue
		}
		for _, p := range h.Probes {
			want := (c.f == nil || p.ord() >= c.f.ord()) && (c.t == nil || p.ord() <= c.t.ord())
			if got := c.fl.Contains(p.date()); got != want {
				return "after_other_construction:contains", fmt.Sprintf("two filters built one after the other (%v..%v then %v..%v): filter %d Contains(%v) = %v want %v", h.F1, h.T1, h.F2, h.T2, i+1, p, got, want)
			}
		}
	}
	return "", ""
}

// every ordered pair of consecutive probes on one filter object (a filter must not remember earlier probes)
type seqArg struct {
	From, To *ymd
	Probes   []ymd `json:"probes"`
}

func probeSeq(a seqArg) (string, string) {
	var fp, tp *date.Date
	if a.From != nil {
		v := a.From.date()
		fp = &v
	}
	if a.To != nil {
		v := a.To.date()
		tp = &v
	}
	f, err := date.FilterFromTo(fp, tp)
	if err != nil || f == nil {
		return "valid_bounds_refused", fmt.Sprintf("FilterFromTo(%v,%v) = %v, %v", a.From, a.To, f, err)
	}
	ds := make([]date.Date, len(a.Probes))
	want := make([]bool, len(a.Probes))
	for i, p := range a.Probes {
		ds[i] = p.date()
		want[i] = (a.From == nil || p.ord() >= a.From.ord()) && (a.To == nil || p.ord() <= a.To.ord())
	}
	for i := range ds {
		for j := range ds {
			f.Contains(ds[i])
			if got := f.Contains(ds[j]); got != want[j] {
				return "contains_after_previous_probe", fmt.Sprintf("filter(%v..%v): Contains(%v) directly after Contains(%v) = %v want %v", a.From, a.To, a.Probes[j], a.Probes[i], got, want[j])
			}
		}
	}
	return "", ""
}

func main() {
	mc.Main("C15", "all (from, to) pairs over a date window x 4 nil/non-nil shapes, each probed with every date of the window, against day ordinals; "+
		"non-trivial = both bounds given and they differ in month or year", func(r *mc.Run) {
		firstuse.Phase(r, map[string][]string{"date": {"filter"}})
		p := mc.NewProbe(r, "filter", setup, probe)
		r.Reset = func() { time.Local = defaultLocal }
		r.Assume("reference: ordinal comparison; error iff both bounds given and from > to")
		// window: 2023-12-15 .. 2024-03-05 (crosses year, leap February) plus boundary dates
		var win []ymd
		lo, hi := oracle.Ordinal(2023, 12, 15), oracle.Ordinal(2024, 3, 5)
		for n := lo; n <= hi; n++ {
			y, m, d := oracle.FromOrdinal(n)
			win = append(win, ymd{y, m, d})
		}
		extraYears := []int64{0, 1, 1900, 2000, 2023, 2025, 9999, -1, 2, 4, 100, 400, 1582, 1999, 2001, 2024}
		if !r.Quick() {
			extraYears = append(extraYears, 1600, 1700, 1800, 2100, 2400, 9998, 1234, 3000)
		}
		for _, y := range extraYears {
			for m := 1; m <= 12; m++ {
				win = append(win, ymd{y, m, 1}, ymd{y, m, oracle.DaysIn(y, m)})
			}
			win = append(win, ymd{y, 6, 15}, ymd{y, 5, 16}, ymd{y, 7, 14})
		}
		// ... up to the very ends of what a Date can hold (the year is kept as an int32, zero-based: -2147483647 .. 2147483648)
		for _, y := range []int64{10000, 12345, 999999999, -999999999, 1500000000, -1500000000, 2147483646, -2147483646, 2147483647, 2147483648, -2147483647, 300000000, -300000000} {
			win = append(win, ymd{y, 1, 1}, ymd{y, 6, 15}, ymd{y, 12, 31})
		}
		n := int64(len(win))
		pseq := mc.NewProbe(r, "probe_sequence", nil, probeSeq)
		r.Phase("serial: every ordered pair of consecutive Contains calls on one filter object, probes = all days of 2021-2022, for 6 filters of every shape", "complete for depth 2 over the two years", func() {
			var two []ymd
			for y := int64(2021); y <= 2022; y++ {
				for m := 1; m <= 12; m++ {
					for d := 1; d <= oracle.DaysIn(y, m); d++ {
						two = append(two, ymd{y, m, d})
					}
				}
			}
			fs := [][2]*ymd{{&ymd{2021, 8, 18}, &ymd{2022, 8, 10}}, {&ymd{2022, 1, 1}, &ymd{2022, 1, 1}}, {&ymd{2021, 12, 31}, nil}, {nil, &ymd{2022, 2, 28}}, {nil, nil}, {&ymd{2021, 1, 31}, &ymd{2021, 3, 1}}}
			r.Serial(func(w *mc.W) {
				for _, f := range fs {
					w.Points(int64(len(two) * len(two)))
					pseq.Do(w, seqArg{f[0], f[1], two})
				}
			})
		})
		phist := mc.NewProbe(r, "history2", nil, probeHist)
		r.Phase("serial: all histories of two filter constructions over 6 bounds (incl. nil) - both filters are probed afterwards", "complete for depth 2 over the listed bounds", func() {
			bs := []*ymd{nil, {2024, 2, 28}, {2024, 2, 29}, {2024, 3, 1}, {2023, 12, 31}, {1, 1, 1}}
			probes := []ymd{{2024, 2, 27}, {2024, 2, 28}, {2024, 2, 29}, {2024, 3, 1}, {2024, 3, 2}, {2023, 12, 30}, {2023, 12, 31}, {2024, 1, 1}, {1, 1, 1}, {0, 12, 31}, {1, 1, 2}}
			r.Serial(func(w *mc.W) {
				for _, a := range bs {
					for _, b := range bs {
						for _, c := range bs {
							for _, d := range bs {
								w.Point()
								phist.Do(w, histArg{a, b, c, d, probes})
							}
						}
					}
				}
			})
		})
		r.Phase(fmt.Sprintf("all (from,to) pairs of %d dates x shapes {both,from only,to only,none} x all %d probe dates, before and after the caller's variables are overwritten", n, n), "complete", func() {
			r.Parallel(n, 1, func(w *mc.W, i int64) {
				from := win[i]
				for j := range win {
					to := win[j]
					w.Point()
					if from.Y != to.Y || from.M != to.M {
						w.NonTrivial()
					}
					if from.ord() > to.ord() {
						w.Outcome("refused")
					} else {
						w.Outcome("built")
					}
					w.Points(n - 1)
					p.Do(w, arg{From: &from, To: &to, Probes: win, Scribble: win[(int(i)+j+7)%len(win)]})
				}
				w.Points(2 * n)
				p.Do(w, arg{From: &from, To: nil, Probes: win, Scribble: win[(int(i)+3)%len(win)]})
				p.Do(w, arg{From: nil, To: &from, Probes: win, Scribble: win[(int(i)+5)%len(win)]})
			})
			r.Serial(func(w *mc.W) {
				w.Points(n)
				p.Do(w, arg{Probes: win, Scribble: ymd{2024, 2, 29}})
			})
		})
		for _, z := range mc.Zones[:4] {
			z := z
			r.Phase(fmt.Sprintf("time.Local = %s: all (from,to) pairs of a 44-date window around days that have no local midnight in that zone, all probes", z), "complete for the window", func() {
				setup(arg{Zone: z})
				var zw []ymd
				for _, c := range [][3]int64{{2011, 12, 30}, {1994, 12, 31}, {1993, 8, 21}, {2018, 11, 4}} {
					c0 := oracle.Ordinal(c[0], int(c[1]), int(c[2]))
					for n := c0 - 5; n <= c0+5; n++ {
						y, m, d := oracle.FromOrdinal(n)
						zw = append(zw, ymd{y, m, d})
					}
				}
				r.Parallel(int64(len(zw)), 1, func(w *mc.W, i int64) {
					from := zw[i]
					for j := range zw {
						to := zw[j]
						w.Points(int64(len(zw)))
						p.Do(w, arg{Zone: z, From: &from, To: &to, Probes: zw, Scribble: zw[(int(i)+j+3)%len(zw)]})
					}
					p.Do(w, arg{Zone: z, From: &from, Probes: zw, Scribble: zw[0]})
					p.Do(w, arg{Zone: z, To: &from, Probes: zw, Scribble: zw[1]})
				})
				time.Local = defaultLocal
			})
		}
		a, b := ymd{2024, 2, 29}, ymd{2024, 3, 1}
		r.Sample("triple", arg{From: &a, To: &b, Probes: []ymd{{2024, 2, 28}, {2024, 2, 29}, {2024, 3, 1}, {2024, 3, 2}}, Scribble: ymd{2000, 1, 1}})
	})
}
