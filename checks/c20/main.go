// C20: the marshal-test helpers report exactly the failing cases.
package main

import (
	"encoding"
	"encoding/json"
	"errors"
	"fmt"
	"regexp"
	"sort"
	"strings"

	"go.lstv.dev/util/test"
	_ "verif/libdefaults" // installs mc.LibReset when built with the hooks
	"verif/mc"
)

// ------------------------------------------------------------ scripted types
// Marshal behaviour is scripted by the value (Script field); unmarshal behaviour by the data ("<script>:<payload>").
const (
	sRight        = iota // right data / value
	sWrong               // wrong data / value
	sErr                 // error, no data
	sErrData             // error together with data
	sPanic               // panic
	sEmptyNil            // no error, nil data (marshal) / leaves the value empty (unmarshal); the expected data is "" / the zero value
	sPanicRuntime        // panics with a runtime.Error (index out of range)
	sWrongSimilar        // wrong data that is "equivalent" under a looser comparison (JSON members reordered and re-spaced; same text in another case)
	sRightRaw            // right data / value that is not valid UTF-8 and contains NUL (data is opaque bytes to the helpers)
	nScripts
)

var scriptNames = [...]string{"right", "wrong", "error", "error+data", "panic", "empty", "runtimepanic", "wrongsimilar", "rightraw"}

const rawPayload = "caf\xe9\x00\xff"

// the payload is JSON-shaped so that a JSON-aware comparison could be fooled
const similarPayload = `{"b":2, "a":1}`

func marshalScript(script int, payload string) ([]byte, error) {
	switch script {
	case sRight:
		return []byte(payload), nil
	case sWrong:
		return []byte(payload + "x"), nil
	case sErr:
		return nil, errors.New("boom: scripted failure")
	case sErrData:
		return []byte(payload), errors.New("boom: scripted failure")
	case sEmptyNil:
		return nil, nil
	case sPanicRuntime:
		var arr []int
		_ = arr[script] // runtime error: index out of range
	case sWrongSimilar:
		return []byte(similarPayload), nil
	case sRightRaw:
		return []byte(rawPayload), nil
	}
	panic("kaboom: scripted panic")
}

func unmarshalScript(data []byte) (payload string, set bool, err error) {
	s := string(data)
	i := strings.IndexByte(s, ':')
	if i < 0 {
		return "", false, errors.New("boom: no script")
	}
	switch s[:i] {
	case "right":
		return s[i+1:], true, nil
	case "wrong":
		return s[i+1:] + "x", true, nil
	case "error":
		return "", false, errors.New("boom: scripted failure")
	case "error+data":
		return s[i+1:], true, errors.New("boom: scripted failure")
	case "empty":
		return "", false, nil
	case "runtimepanic":
		var arr []int
		_ = arr[len(s)] // runtime error: index out of range
	case "wrongsimilar":
		return strings.ToUpper(s[i+1:]), true, nil
	case "rightraw":
		return rawPayload, true, nil
	}
	panic("kaboom: scripted panic")
}

// V: value receivers for Marshal*, pointer receivers for Unmarshal* (used as T = V)
type V struct {
	Script  int
	Payload string
}

func (v V) MarshalText() ([]byte, error)   { return marshalScript(v.Script, v.Payload) }
func (v V) MarshalBinary() ([]byte, error) { return marshalScript(v.Script, v.Payload) }
func (v V) MarshalJSON() ([]byte, error)   { return marshalScript(v.Script, v.Payload) }
func (v *V) set(data []byte) error {
	p, ok, err := unmarshalScript(data)
	if ok {
		v.Payload = p
	}
	return err
}
func (v *V) UnmarshalText(d []byte) error   { return v.set(d) }
func (v *V) UnmarshalBinary(d []byte) error { return v.set(d) }
func (v *V) UnmarshalJSON(d []byte) error   { return v.set(d) }

// P: pointer receivers everywhere (used as T = *P)
type P struct {
	Script  int
	Payload string
}

func (v *P) MarshalText() ([]byte, error)   { return marshalScript(v.Script, v.Payload) }
func (v *P) MarshalBinary() ([]byte, error) { return marshalScript(v.Script, v.Payload) }
func (v *P) MarshalJSON() ([]byte, error)   { return marshalScript(v.Script, v.Payload) }
func (v *P) set(data []byte) error {
	p, ok, err := unmarshalScript(data)
	if ok {
		v.Payload = p
	}
	return err
}
func (v *P) UnmarshalText(d []byte) error   { return v.set(d) }
func (v *P) UnmarshalBinary(d []byte) error { return v.set(d) }
func (v *P) UnmarshalJSON(d []byte) error   { return v.set(d) }

// N lacks every interface
type N struct{ Payload string }

// T implements only the text interfaces, J only the JSON ones (a type may implement a subset)
type T struct {
	Script  int
	Payload string
}

func (v T) MarshalText() ([]byte, error) { return marshalScript(v.Script, v.Payload) }
func (v *T) UnmarshalText(d []byte) error {
	p, ok, err := unmarshalScript(d)
	if ok {
		v.Payload = p
	}
	return err
}

type J struct {
	Script  int
	Payload string
}

func (v J) MarshalJSON() ([]byte, error) { return marshalScript(v.Script, v.Payload) }
func (v *J) UnmarshalJSON(d []byte) error {
	p, ok, err := unmarshalScript(d)
	if ok {
		v.Payload = p
	}
	return err
}

func lacks(typ, helper string) bool {
	switch typ {
	case "N":
		return true
	case "P":
		return strings.HasPrefix(helper, "Marshal")
	case "T":
		return !strings.HasSuffix(helper, "Text")
	case "J":
		return !strings.HasSuffix(helper, "JSON")
	}
	return false
}

// ------------------------------------------------------------ recording TestingT
type recorder struct {
	errors  []string
	failNow int
	helpers int
}

func (r *recorder) Errorf(format string, args ...any) {
	r.errors = append(r.errors, fmt.Sprintf(format, args...))
}
func (r *recorder) FailNow()     { r.failNow++ }
func (r *recorder) Helper()      { r.helpers++ }
func (r *recorder) failed() bool { return len(r.errors) > 0 || r.failNow > 0 }

// ------------------------------------------------------------ case specification
const (
	hNil = iota
	hOK
	hError
	hPanic
	nHooks
)

var hookNames = [...]string{"nil", "ok", "returns error", "panics"}

const (
	pNil = iota
	pAny
	pErrorEq
	pErrorNe
	pPrefixEq
	pPrefixNe
	pSuffixEq
	pSuffixNe
	pMatch
	pNoMatch
	pBadPattern
	pErrorSubstring // Error(text) where text is only a proper substring of the actual message
	pPrefixIsSuffix // ErrorHasPrefix(text) where text is the message's suffix
	pSuffixIsPrefix // ErrorHasSuffix(text) where text is the message's prefix
	pMatchAnchored  // ErrorMatch with an anchored pattern that matches only a part of the message
	nPreds
)

var predNames = [...]string{"nil", "AnyError", "Error(equal)", "Error(different)", "ErrorHasPrefix(prefix)", "ErrorHasPrefix(no prefix)", "ErrorHasSuffix(suffix)", "ErrorHasSuffix(no suffix)",
	"ErrorMatch(valid pattern, match)", "ErrorMatch(valid pattern, no match)", "ErrorMatch(invalid pattern)",
	"Error(proper substring)", "ErrorHasPrefix(the suffix)", "ErrorHasSuffix(the prefix)", "ErrorMatch(valid anchored pattern, no match)"}

type caseSpec struct {
	Constraint int  `json:"constraint"` // 0 both, 1 OnlyMarshal, 2 OnlyUnmarshal
	Before     int  `json:"before"`
	After      int  `json:"after"`
	Pred       int  `json:"pred"`
	Script     int  `json:"script"`
	Different  bool `json:"expected_differs"` // the case expects other data / another value than the right one
}

func (c caseSpec) String() string {
	return fmt.Sprintf("{constraint=%d before=%s after=%s pred=%s script=%s expected_differs=%v}", c.Constraint, hookNames[c.Before], hookNames[c.After], predNames[c.Pred], scriptNames[c.Script], c.Different)
}

// text of the error a script produces ("" = no error)
func scriptErrText(script int) (text string, isPanic bool) {
	switch script {
	case sErr, sErrData:
		return "boom: scripted failure", false
	case sPanic:
		return "panic: kaboom: scripted panic", true // the helpers turn a panic into an error whose text starts like this
	case sPanicRuntime:
		return "panic: runtime error: scripted", true
	}
	return "", false
}

func buildPred(p int, script int) test.AssertErrorFunc {
	switch p {
	case pNil:
		return nil
	case pAny:
		return test.AnyError
	case pErrorEq:
		return test.Error("boom: scripted failure")
	case pErrorNe:
		return test.Error("another text")
	case pPrefixEq:
		if script == sPanic {
			return test.ErrorHasPrefix("panic: kaboom")
		}
		if script == sPanicRuntime {
			return test.ErrorHasPrefix("panic: runtime error")
		}
		return test.ErrorHasPrefix("boom:")
	case pPrefixNe:
		return test.ErrorHasPrefix("zzz")
	case pSuffixEq:
		if script == sPanic || script == sPanicRuntime {
			return test.ErrorHasSuffix("\n") // the stack trace ends with a newline
		}
		return test.ErrorHasSuffix("failure")
	case pSuffixNe:
		return test.ErrorHasSuffix("zzz")
	case pMatch:
		return test.ErrorMatch(`^(boom|panic): .*(scripted|runtime error)`)
	case pNoMatch:
		return test.ErrorMatch(`^never matches$`)
	case pErrorSubstring:
		return test.Error("scripted")
	case pPrefixIsSuffix:
		return test.ErrorHasPrefix("failure")
	case pSuffixIsPrefix:
		return test.ErrorHasSuffix("boom:")
	case pMatchAnchored:
		return test.ErrorMatch(`^scripted$`)
	}
	return test.ErrorMatch(`(unclosed`)
}

// independent evaluation of a predicate on the error text ("" = nil error)
func predHolds(p int, script int) bool {
	txt, isPanic := scriptErrText(script)
	if txt == "" {
		return false // every predicate requires an error
	}
	switch p {
	case pAny:
		return true
	case pErrorEq:
		return !isPanic // the panic text carries a stack trace, it never equals the plain text
	case pErrorNe, pPrefixNe, pSuffixNe, pNoMatch, pBadPattern, pErrorSubstring, pPrefixIsSuffix, pSuffixIsPrefix, pMatchAnchored:
		return false
	case pPrefixEq, pSuffixEq:
		return true
	case pMatch:
		return regexp.MustCompile(`^(boom|panic): .*(scripted|runtime error)`).MatchString(txt)
	}
	panic("harness: predHolds on nil predicate")
}

// reasons why a case is not satisfied for the given direction (empty = satisfied or not applicable)
func unmet(c caseSpec, marshalDir bool) []string {
	if marshalDir && c.Constraint == 2 || !marshalDir && c.Constraint == 1 {
		return nil
	}
	if c.Before == hError || c.Before == hPanic {
		return []string{"before_hook_fails"}
	}
	var rs []string
	if c.After == hError || c.After == hPanic {
		return []string{"after_hook_fails"}
	}
	errTxt, _ := scriptErrText(c.Script)
	hasResult := c.Script == sRight || c.Script == sWrong || c.Script == sErrData || c.Script == sWrongSimilar || c.Script == sRightRaw
	if c.Script == sRightRaw && c.Pred == pNil { // equals the expectation exactly when the case expects the raw payload
		if c.Different {
			return []string{"data_or_value_differs"}
		}
		return nil
	}
	if c.Script == sEmptyNil { // the result is empty: it equals the expectation exactly when the case expects the empty data / zero value
		if c.Pred != pNil {
			return []string{"missing_error"}
		}
		if c.Different {
			return []string{"data_or_value_differs"}
		}
		return nil
	}
	if c.Pred == pNil {
		if errTxt != "" {
			rs = append(rs, "unexpected_error")
		} else if c.Script != sRight || c.Different { // only the right data/value against the matching expectation is equal
			rs = append(rs, "data_or_value_differs")
		}
	} else {
		if !predHolds(c.Pred, c.Script) {
			if errTxt == "" {
				rs = append(rs, "missing_error")
			} else {
				rs = append(rs, "error_predicate_unmet:"+predNames[c.Pred])
			}
		} else if hasResult {
			rs = append(rs, "result_alongside_expected_error")
		}
	}
	return rs
}

// ------------------------------------------------------------ running the real helpers
type listArg struct {
	Prev   string     `json:"previous_helper_call,omitempty"` // history of depth 2: this helper is run first on the same type (one trivial case)
	Helper string     `json:"helper"`                         // MarshalText UnmarshalText MarshalBinary ...
	Type   string     `json:"type"`                           // V, *P, N
	Custom bool       `json:"custom_type_helper"`
	Cases  []caseSpec `json:"cases"`
	// NilValue: for T = *P in the Unmarshal helpers, cases that expect an error leave their Value nil (what a test author
	// writes for an error case); the helper must still unmarshal into a fresh non-nil value.
	NilValue bool `json:"nil_value_in_error_cases,omitempty"`
}

func hook[C any](kind int) func(int, *C) error {
	switch kind {
	case hNil:
		return nil
	case hOK:
		return func(int, *C) error { return nil }
	case hError:
		return func(int, *C) error { return errors.New("hook says no") }
	}
	return func(int, *C) error { panic("hook panics") }
}

func constraintOf(c int) test.Constraint {
	switch c {
	case 1:
		return test.OnlyMarshal
	case 2:
		return test.OnlyUnmarshal
	}
	return 0
}

const rightPayload = `{"a":1,"b":2}` // JSON-shaped on purpose (see similarPayload)

// expected data text of a case for marshal / input data for unmarshal
func marshalExpected(c caseSpec) string {
	if c.Different {
		return "something else"
	}
	if c.Script == sEmptyNil {
		return ""
	}
	if c.Script == sRightRaw {
		return rawPayload
	}
	return rightPayload
}
func unmarshalInput(c caseSpec) string { return scriptNames[c.Script] + ":" + rightPayload }
func unmarshalExpectedPayload(c caseSpec) string {
	if c.Different {
		return "something else"
	}
	if c.Script == sEmptyNil {
		return ""
	}
	if c.Script == sRightRaw {
		return rawPayload
	}
	return rightPayload
}

type customHelper[T any] struct {
	mk    func() T
	empty func(T) bool
	equal func(a, b T) bool
}

func (h customHelper[T]) New(T) T { return h.mk() }
func (h customHelper[T]) AssertEmpty(t test.TestingT, v T, info string) {
	if !h.empty(v) {
		t.Errorf("custom helper: value not empty: %s", info)
	}
}
func (h customHelper[T]) AssertEqual(t test.TestingT, e, a T, info string) {
	if !h.equal(e, a) {
		t.Errorf("custom helper: values differ: %s", info)
	}
}

func runHelper[T any](rec *recorder, a listArg, mkValue func(c caseSpec, marshalDir bool) T, th test.TypeHelper[T]) {
	switch a.Helper {
	case "MarshalText", "UnmarshalText":
		cs := make([]test.CaseText[T], len(a.Cases))
		m := a.Helper == "MarshalText"
		for i, c := range a.Cases {
			cs[i] = test.CaseText[T]{Constraint: constraintOf(c.Constraint), Before: hook[test.CaseText[T]](c.Before), After: hook[test.CaseText[T]](c.After), Error: buildPred(c.Pred, c.Script), Value: mkValue(c, m)}
			if m {
				cs[i].Data = marshalExpected(c)
			} else {
				cs[i].Data = unmarshalInput(c)
			}
		}
		if m {
			test.MarshalText(rec, cs)
		} else {
			test.UnmarshalText(rec, cs, th)
		}
	case "MarshalBinary", "UnmarshalBinary":
		cs := make([]test.CaseBinary[T], len(a.Cases))
		m := a.Helper == "MarshalBinary"
		for i, c := range a.Cases {
			cs[i] = test.CaseBinary[T]{Constraint: constraintOf(c.Constraint), Before: hook[test.CaseBinary[T]](c.Before), After: hook[test.CaseBinary[T]](c.After), Error: buildPred(c.Pred, c.Script), Value: mkValue(c, m)}
			if m {
				if e := marshalExpected(c); e != "" { // expected "no data" is written as nil: testify tells a nil []byte from an empty one (statement silent: don't care)
					cs[i].Data = []byte(e)
				}
			} else {
				cs[i].Data = []byte(unmarshalInput(c))
			}
		}
		if m {
			test.MarshalBinary(rec, cs)
		} else {
			test.UnmarshalBinary(rec, cs, th)
		}
	default:
		cs := make([]test.CaseJSON[T], len(a.Cases))
		m := a.Helper == "MarshalJSON"
		for i, c := range a.Cases {
			cs[i] = test.CaseJSON[T]{Constraint: constraintOf(c.Constraint), Before: hook[test.CaseJSON[T]](c.Before), After: hook[test.CaseJSON[T]](c.After), Error: buildPred(c.Pred, c.Script), Value: mkValue(c, m)}
			if m {
				cs[i].Data = marshalExpected(c)
			} else {
				cs[i].Data = unmarshalInput(c)
			}
		}
		if m {
			test.MarshalJSON(rec, cs)
		} else {
			test.UnmarshalJSON(rec, cs, th)
		}
	}
}

func probe(a listArg) (kind, detail string) {
	rec := &recorder{}
	marshalDir := strings.HasPrefix(a.Helper, "Marshal")
	if a.Prev != "" { // the previous helper call on the same type; whatever it reports or panics is not judged
		func() {
			defer func() { _ = recover() }()
			b := a
			b.Prev, b.Helper, b.Cases = "", a.Prev, []caseSpec{{0, hNil, hNil, pNil, sRight, false}}
			probe(b)
		}()
	}
	escaped := func() (p any) {
		defer func() { p = recover() }()
		switch a.Type {
		case "T":
			runHelper[T](rec, a, func(c caseSpec, m bool) T {
				if m {
					return T{Script: c.Script, Payload: rightPayload}
				}
				return T{Payload: unmarshalExpectedPayload(c)}
			}, nil)
		case "J":
			runHelper[J](rec, a, func(c caseSpec, m bool) J {
				if m {
					return J{Script: c.Script, Payload: rightPayload}
				}
				return J{Payload: unmarshalExpectedPayload(c)}
			}, nil)
		case "V":
			var th test.TypeHelper[V]
			if a.Custom {
				th = customHelper[V]{mk: func() V { return V{} }, empty: func(v V) bool { return v == V{} }, equal: func(x, y V) bool { return x == y }}
			}
			runHelper(rec, a, func(c caseSpec, m bool) V {
				if m {
					return V{Script: c.Script, Payload: rightPayload}
				}
				return V{Payload: unmarshalExpectedPayload(c)}
			}, th)
		case "*P":
			var th test.TypeHelper[*P]
			if a.Custom {
				th = customHelper[*P]{mk: func() *P { return &P{} }, empty: func(v *P) bool { return v != nil && *v == P{} }, equal: func(x, y *P) bool { return x != nil && y != nil && *x == *y }}
			}
			runHelper(rec, a, func(c caseSpec, m bool) *P {
				if m {
					return &P{Script: c.Script, Payload: rightPayload}
				}
				if a.NilValue && c.Pred != pNil {
					return nil
				}
				return &P{Payload: unmarshalExpectedPayload(c)}
			}, th)
		case "P":
			var th test.TypeHelper[P]
			if a.Custom {
				th = customHelper[P]{mk: func() P { return P{} }, empty: func(v P) bool { return v == P{} }, equal: func(x, y P) bool { return x == y }}
			}
			runHelper(rec, a, func(c caseSpec, m bool) P {
				if m {
					return P{Script: c.Script, Payload: rightPayload}
				}
				return P{Payload: unmarshalExpectedPayload(c)}
			}, th)
		default:
			var th test.TypeHelper[N]
			if a.Custom {
				th = customHelper[N]{mk: func() N { return N{} }, empty: func(v N) bool { return v == N{} }, equal: func(x, y N) bool { return x == y }}
			}
			runHelper(rec, a, func(c caseSpec, m bool) N { return N{Payload: rightPayload} }, th)
		}
		return nil
	}()
	if escaped != nil {
		return "panic_escaped", fmt.Sprintf("%s[%s] let a panic escape: %v (cases %v)", a.Helper, a.Type, escaped, a.Cases)
	}
	// oracle
	var reasons []string
	seen := map[string]bool{}
	anyApplicable := false
	for _, c := range a.Cases {
		if !(marshalDir && c.Constraint == 2 || !marshalDir && c.Constraint == 1) {
			anyApplicable = true
		}
		for _, r := range unmet(c, marshalDir) {
			if !seen[r] {
				seen[r] = true
				reasons = append(reasons, r)
			}
		}
	}
	if lacks(a.Type, a.Helper) { // N has no methods; P as a value has its Marshal* methods on the pointer only; T and J implement one family only
		if len(a.Cases) == 0 {
			return "", ""
		}
		if !anyApplicable {
			return "", "" // statement silent: a type lacking the interface with no applicable case
		}
		if !rec.failed() {
			return "failure_not_reported[type_lacks_interface]", fmt.Sprintf("%s on a type without the interface reported nothing", a.Helper)
		}
		return "", ""
	}
	sort.Strings(reasons)
	mustFail := len(reasons) > 0
	if mustFail && !rec.failed() {
		return "failure_not_reported[" + strings.Join(reasons, ",") + "]", fmt.Sprintf("%s[%s custom=%v] reported no failure for cases %v; unmet: %v", a.Helper, a.Type, a.Custom, a.Cases, reasons)
	}
	if !mustFail && rec.failed() {
		msg := ""
		if len(rec.errors) > 0 {
			msg = rec.errors[0]
			if len(msg) > 300 {
				msg = msg[:300]
			}
		}
		return "spurious_failure", fmt.Sprintf("%s[%s custom=%v] reported a failure although every applicable case is satisfied: cases %v; first message: %s", a.Helper, a.Type, a.Custom, a.Cases, msg)
	}
	return "", ""
}

// ------------------------------------------------------------ further case shapes (hooks that change the case, interface-typed T, a type with its own Equal)
// E has an Equal method that is coarser than structural equality (it ignores Label).
type E struct {
	Payload string
	Label   string
}

func (e E) Equal(o E) bool { return e.Payload == o.Payload }
func (e *E) set(d []byte) error {
	e.Payload, e.Label = string(d), "set by unmarshal"
	return nil
}
func (e *E) UnmarshalText(d []byte) error   { return e.set(d) }
func (e *E) UnmarshalBinary(d []byte) error { return e.set(d) }
func (e *E) UnmarshalJSON(d []byte) error   { return e.set(d) }

// MP and SL are a map type and a slice type with pointer-receiver unmarshalers; input "keep" leaves the receiver as it is.
type MP map[string]string
type SL []string

func (m *MP) set(d []byte) error {
	if string(d) != "keep" {
		*m = MP{"data": string(d)}
	}
	return nil
}
func (m *MP) UnmarshalText(d []byte) error   { return m.set(d) }
func (m *MP) UnmarshalBinary(d []byte) error { return m.set(d) }
func (m *MP) UnmarshalJSON(d []byte) error   { return m.set(d) }
func (l *SL) set(d []byte) error {
	if string(d) != "keep" {
		*l = SL{string(d)}
	}
	return nil
}
func (l *SL) UnmarshalText(d []byte) error   { return l.set(d) }
func (l *SL) UnmarshalBinary(d []byte) error { return l.set(d) }
func (l *SL) UnmarshalJSON(d []byte) error   { return l.set(d) }

type shapeArg struct {
	Shape  string `json:"shape"`
	Helper string `json:"helper"`
}

var shapes = []string{"before_hook_repairs_value", "before_hook_spoils_value", "before_hook_replaces_pointer", "interface_typed_T_satisfied", "interface_typed_T_unmet", "own_Equal_method_hides_difference", "own_Equal_method_equal_values",
	"map_typed_T_untouched_receiver", "map_typed_T_value", "map_typed_T_differs", "slice_typed_T_untouched_receiver", "slice_typed_T_differs",
	"interface_typed_T_mixed_concrete_types_satisfied", "interface_typed_T_mixed_concrete_types_last_unmet", "binary_nil_data_reaches_unmarshaler_as_nil", "binary_empty_data_reaches_unmarshaler_as_empty"}

// NB is a nullable blob: UnmarshalBinary(nil) means NULL, any non-nil data (also empty) is a present value.
type NB struct {
	Null bool
	B    string
}

func (b *NB) UnmarshalBinary(d []byte) error {
	if d == nil {
		*b = NB{Null: true}
	} else {
		*b = NB{B: string(d)}
	}
	return nil
}

// probeShape: each shape is a one-case list whose verdict is known by construction.
func probeShape(a shapeArg) (string, string) {
	rec := &recorder{}
	mustFail := false
	m := strings.HasPrefix(a.Helper, "Marshal")
	right, wrong := V{Script: sRight, Payload: rightPayload}, V{Script: sWrong, Payload: rightPayload}
	escaped := func() (p any) {
		defer func() { p = recover() }()
		switch a.Shape {
		case "before_hook_repairs_value", "before_hook_spoils_value": // value-typed T: the Before hook assigns c.Value; what is marshalled is the value after the hook
			if !m {
				return nil
			}
			first, second := wrong, right
			if a.Shape == "before_hook_spoils_value" {
				first, second, mustFail = right, wrong, true
			}
			switch a.Helper {
			case "MarshalText":
				test.MarshalText(rec, []test.CaseText[V]{{Value: first, Data: rightPayload, Before: func(_ int, c *test.CaseText[V]) error { c.Value = second; return nil }}})
			case "MarshalBinary":
				test.MarshalBinary(rec, []test.CaseBinary[V]{{Value: first, Data: []byte(rightPayload), Before: func(_ int, c *test.CaseBinary[V]) error { c.Value = second; return nil }}})
			default:
				test.MarshalJSON(rec, []test.CaseJSON[V]{{Value: first, Data: rightPayload, Before: func(_ int, c *test.CaseJSON[V]) error { c.Value = second; return nil }}})
			}
		case "before_hook_replaces_pointer": // pointer-typed T: the hook puts another pointer into the case
			if !m {
				return nil
			}
			first, second := &P{Script: sWrong, Payload: rightPayload}, &P{Script: sRight, Payload: rightPayload}
			switch a.Helper {
			case "MarshalText":
				test.MarshalText(rec, []test.CaseText[*P]{{Value: first, Data: rightPayload, Before: func(_ int, c *test.CaseText[*P]) error { c.Value = second; return nil }}})
			case "MarshalBinary":
				test.MarshalBinary(rec, []test.CaseBinary[*P]{{Value: first, Data: []byte(rightPayload), Before: func(_ int, c *test.CaseBinary[*P]) error { c.Value = second; return nil }}})
			default:
				test.MarshalJSON(rec, []test.CaseJSON[*P]{{Value: first, Data: rightPayload, Before: func(_ int, c *test.CaseJSON[*P]) error { c.Value = second; return nil }}})
			}
		case "interface_typed_T_satisfied", "interface_typed_T_unmet": // the list is instantiated with the interface type itself
			v := right
			if a.Shape == "interface_typed_T_unmet" {
				v, mustFail = wrong, true
			}
			in := scriptNames[v.Script] + ":" + rightPayload
			switch a.Helper {
			case "MarshalText":
				test.MarshalText(rec, []test.CaseText[encoding.TextMarshaler]{{Value: v, Data: rightPayload}, {Value: &P{Script: v.Script, Payload: rightPayload}, Data: rightPayload}})
			case "MarshalBinary":
				test.MarshalBinary(rec, []test.CaseBinary[encoding.BinaryMarshaler]{{Value: v, Data: []byte(rightPayload)}, {Value: &P{Script: v.Script, Payload: rightPayload}, Data: []byte(rightPayload)}})
			case "MarshalJSON":
				test.MarshalJSON(rec, []test.CaseJSON[json.Marshaler]{{Value: v, Data: rightPayload}, {Value: &P{Script: v.Script, Payload: rightPayload}, Data: rightPayload}})
			case "UnmarshalText":
				test.UnmarshalText(rec, []test.CaseText[encoding.TextUnmarshaler]{{Value: &P{Payload: rightPayload}, Data: in}}, nil)
			case "UnmarshalBinary":
				test.UnmarshalBinary(rec, []test.CaseBinary[encoding.BinaryUnmarshaler]{{Value: &P{Payload: rightPayload}, Data: []byte(in)}}, nil)
			default:
				test.UnmarshalJSON(rec, []test.CaseJSON[json.Unmarshaler]{{Value: &P{Payload: rightPayload}, Data: in}}, nil)
			}
		case "interface_typed_T_mixed_concrete_types_satisfied", "interface_typed_T_mixed_concrete_types_last_unmet":
			// an interface-typed list whose cases hold different implementations: each case is unmarshalled into a fresh value of its own type
			if m {
				return nil
			}
			in := "right:" + rightPayload
			last := &V{Payload: rightPayload}
			if a.Shape == "interface_typed_T_mixed_concrete_types_last_unmet" {
				last, mustFail = &V{Payload: rightPayload + "?"}, true
			}
			switch a.Helper {
			case "UnmarshalText":
				test.UnmarshalText(rec, []test.CaseText[encoding.TextUnmarshaler]{{Value: &P{Payload: rightPayload}, Data: in}, {Value: &V{Payload: rightPayload}, Data: in}, {Value: &P{Payload: rightPayload}, Data: in}, {Value: last, Data: in}}, nil)
			case "UnmarshalBinary":
				test.UnmarshalBinary(rec, []test.CaseBinary[encoding.BinaryUnmarshaler]{{Value: &P{Payload: rightPayload}, Data: []byte(in)}, {Value: &V{Payload: rightPayload}, Data: []byte(in)}, {Value: &P{Payload: rightPayload}, Data: []byte(in)}, {Value: last, Data: []byte(in)}}, nil)
			default:
				test.UnmarshalJSON(rec, []test.CaseJSON[json.Unmarshaler]{{Value: &P{Payload: rightPayload}, Data: in}, {Value: &V{Payload: rightPayload}, Data: in}, {Value: &P{Payload: rightPayload}, Data: in}, {Value: last, Data: in}}, nil)
			}
		case "binary_nil_data_reaches_unmarshaler_as_nil", "binary_empty_data_reaches_unmarshaler_as_empty":
			// the case's Data is what the unmarshaler is given: a type that tells absent (nil) from empty data gets the one the case holds
			if a.Helper != "UnmarshalBinary" {
				return nil
			}
			if a.Shape == "binary_nil_data_reaches_unmarshaler_as_nil" {
				test.UnmarshalBinary(rec, []test.CaseBinary[NB]{{Data: []byte("abc"), Value: NB{B: "abc"}}, {Data: nil, Value: NB{Null: true}}}, nil)
			} else {
				test.UnmarshalBinary(rec, []test.CaseBinary[NB]{{Data: nil, Value: NB{Null: true}}, {Data: []byte{}, Value: NB{}}}, nil)
			}
		case "own_Equal_method_hides_difference", "own_Equal_method_equal_values": // the unmarshalled value differs from the expected one in a field E.Equal ignores
			if m {
				return nil
			}
			want := E{Payload: "data", Label: "expected label"}
			mustFail = true
			if a.Shape == "own_Equal_method_equal_values" {
				want, mustFail = E{Payload: "data", Label: "set by unmarshal"}, false
			}
			switch a.Helper {
			case "UnmarshalText":
				test.UnmarshalText(rec, []test.CaseText[E]{{Value: want, Data: "data"}}, nil)
			case "UnmarshalBinary":
				test.UnmarshalBinary(rec, []test.CaseBinary[E]{{Value: want, Data: []byte("data")}}, nil)
			default:
				test.UnmarshalJSON(rec, []test.CaseJSON[E]{{Value: want, Data: "data"}}, nil)
			}
		case "map_typed_T_untouched_receiver", "map_typed_T_value", "map_typed_T_differs", "slice_typed_T_untouched_receiver", "slice_typed_T_differs":
			// T is a map / slice type: the helper unmarshals into the zero value of T (a nil map / slice)
			if m {
				return nil
			}
			in := "keep"
			var wantM MP
			var wantS SL
			switch a.Shape {
			case "map_typed_T_value":
				in, wantM = "x", MP{"data": "x"}
			case "map_typed_T_differs":
				in, wantM, mustFail = "x", MP{"data": "y"}, true
			case "slice_typed_T_differs":
				in, wantS, mustFail = "x", SL{"y"}, true
			}
			isMap := strings.HasPrefix(a.Shape, "map")
			switch {
			case a.Helper == "UnmarshalText" && isMap:
				test.UnmarshalText(rec, []test.CaseText[MP]{{Value: wantM, Data: in}}, nil)
			case a.Helper == "UnmarshalBinary" && isMap:
				test.UnmarshalBinary(rec, []test.CaseBinary[MP]{{Value: wantM, Data: []byte(in)}}, nil)
			case isMap:
				test.UnmarshalJSON(rec, []test.CaseJSON[MP]{{Value: wantM, Data: in}}, nil)
			case a.Helper == "UnmarshalText":
				test.UnmarshalText(rec, []test.CaseText[SL]{{Value: wantS, Data: in}}, nil)
			case a.Helper == "UnmarshalBinary":
				test.UnmarshalBinary(rec, []test.CaseBinary[SL]{{Value: wantS, Data: []byte(in)}}, nil)
			default:
				test.UnmarshalJSON(rec, []test.CaseJSON[SL]{{Value: wantS, Data: in}}, nil)
			}
		}
		return nil
	}()
	if escaped != nil {
		return "panic_escaped", fmt.Sprintf("%s, shape %s: a panic escaped: %v", a.Helper, a.Shape, escaped)
	}
	if mustFail && !rec.failed() {
		return "failure_not_reported[" + a.Shape + "]", fmt.Sprintf("%s, shape %s: the case is not satisfied (differing data or value) but no failure was reported", a.Helper, a.Shape)
	}
	if !mustFail && rec.failed() {
		msg := ""
		if len(rec.errors) > 0 {
			msg = rec.errors[0]
			if len(msg) > 300 {
				msg = msg[:300]
			}
		}
		return "spurious_failure[" + a.Shape + "]", fmt.Sprintf("%s, shape %s: every case is satisfied but a failure was reported: %s", a.Helper, a.Shape, msg)
	}
	return "", ""
}

var helpers = []string{"MarshalText", "UnmarshalText", "MarshalBinary", "UnmarshalBinary", "MarshalJSON", "UnmarshalJSON"}

func main() {
	mc.Main("C20", "scripted marshaler/unmarshaler types (value receiver, pointer type, type lacking the interface) x every single case shape (constraint x before/after hook x error predicate kind x script x expected equal/different) and every case list up to length 3 over a reduced case alphabet, for all six helpers with and without a custom TypeHelper, against an independent per-case pass/fail oracle and a recording TestingT; "+
		"non-trivial = list with at least one applicable case", func(r *mc.Run) {
		p := mc.NewProbe(r, "case_list", nil, probe)
		r.Assume("oracle: a case applicable to the direction is unmet iff a hook fails, or (no predicate) an error occurs or data/value differs, or (predicate) the predicate does not hold on the error or a result accompanies the expected error; a panic counts as an error whose text starts with 'panic: '; a list must be reported iff some case is unmet or the type lacks the interface")
		r.Assume("don't-care: a type lacking the interface when no case is applicable to the direction; empty case lists on such a type; nil versus empty-but-non-nil []byte as expected binary data of the Marshal direction (never generated; in the Unmarshal direction the unmarshaler must be given the case's Data, nil as nil and empty as empty)")
		// all single cases
		var singles []caseSpec
		for con := 0; con < 3; con++ {
			for b := 0; b < nHooks; b++ {
				for af := 0; af < nHooks; af++ {
					for pr := 0; pr < nPreds; pr++ {
						for sc := 0; sc < nScripts; sc++ {
							for _, df := range []bool{false, true} {
								singles = append(singles, caseSpec{con, b, af, pr, sc, df})
							}
						}
					}
				}
			}
		}
		types := []string{"V", "*P", "P"}
		r.Phase(fmt.Sprintf("all %d single-case lists x 6 helpers x types {V (value receivers), *P (pointer type), P (value of a pointer-receiver type: lacks the marshaler interfaces)} x {nil, custom TypeHelper}", len(singles)), "complete", func() {
			n := int64(len(singles))
			r.Parallel(n, 16, func(w *mc.W, i int64) {
				c := singles[i]
				for _, h := range helpers {
					for _, ty := range types {
						for _, cu := range []bool{false, true} {
							if cu && strings.HasPrefix(h, "Marshal") {
								continue // marshal helpers take no TypeHelper
							}
							w.Point()
							m := strings.HasPrefix(h, "Marshal")
							if len(unmet(c, m)) > 0 {
								w.Outcome("must report")
							} else {
								w.Outcome("must stay silent")
							}
							if !(m && c.Constraint == 2 || !m && c.Constraint == 1) {
								w.NonTrivial()
							}
							p.Do(w, listArg{Helper: h, Type: ty, Custom: cu, Cases: []caseSpec{c}})
						}
					}
				}
			})
		})
		r.Phase("pointer type with a nil Value in the cases that expect an error: every single case shape with an error predicate x 3 Unmarshal helpers x {nil, custom TypeHelper}", "complete", func() {
			r.Parallel(int64(len(singles)), 16, func(w *mc.W, i int64) {
				c := singles[i]
				if c.Pred == pNil {
					return
				}
				for _, h := range []string{"UnmarshalText", "UnmarshalBinary", "UnmarshalJSON"} {
					for _, cu := range []bool{false, true} {
						w.Point()
						w.NonTrivial()
						p.Do(w, listArg{Helper: h, Type: "*P", Custom: cu, Cases: []caseSpec{c}, NilValue: true})
					}
				}
				w.Outcome("nil Value")
			})
		})
		pShape := mc.NewProbe(r, "case_shape", nil, probeShape)
		r.Phase(fmt.Sprintf("further case shapes x 6 helpers: %v", shapes), "complete for the listed shapes", func() {
			r.Serial(func(w *mc.W) {
				for _, sh := range shapes {
					for _, h := range helpers {
						w.Point()
						w.NonTrivial()
						pShape.Do(w, shapeArg{Shape: sh, Helper: h})
					}
				}
				w.Outcome("case shapes")
			})
		})
		r.Sample("case_shape", shapeArg{Shape: "interface_typed_T_satisfied", Helper: "MarshalText"})
		r.Sample("single", listArg{Helper: "UnmarshalText", Type: "V", Cases: []caseSpec{{0, hOK, hNil, pNil, sWrong, false}}})
		// lists up to length 3 over a reduced alphabet: pass, every failure reason, other direction
		red := []caseSpec{
			{0, hNil, hNil, pNil, sRight, false},      // passes
			{0, hOK, hOK, pAny, sErr, false},          // passes (expected error)
			{0, hNil, hNil, pNil, sWrong, false},      // data/value differs
			{0, hNil, hNil, pNil, sRight, true},       // expectation differs
			{0, hNil, hNil, pNil, sErr, false},        // unexpected error
			{0, hNil, hNil, pAny, sRight, false},      // missing error
			{0, hNil, hNil, pErrorNe, sErr, false},    // predicate unmet
			{0, hNil, hNil, pAny, sErrData, false},    // result alongside expected error
			{0, hNil, hNil, pNil, sPanic, false},      // panic
			{0, hError, hNil, pNil, sRight, false},    // before hook fails
			{0, hNil, hPanic, pNil, sRight, false},    // after hook panics
			{1, hNil, hNil, pNil, sWrong, false},      // only marshal, would fail
			{2, hNil, hNil, pNil, sWrong, false},      // only unmarshal, would fail
			{1, hNil, hNil, pNil, sRight, false},      // only marshal, passes
			{2, hPanic, hNil, pNil, sRight, false},    // only unmarshal, hook panics
			{0, hNil, hNil, pPrefixEq, sPanic, false}, // passes (expected panic)
		}
		maxLen := 3
		var lists [][]caseSpec
		var gen func(cur []caseSpec)
		gen = func(cur []caseSpec) {
			if len(cur) != 1 {
				lists = append(lists, append([]caseSpec(nil), cur...))
			}
			if len(cur) == maxLen {
				return
			}
			for _, c := range red {
				gen(append(cur, c))
			}
		}
		gen(nil)
		r.Phase(fmt.Sprintf("all %d case lists of length 0,2,3 over a %d-case alphabet (pass, each failure reason, other-direction cases) x 6 helpers x types {V, *P, N}", len(lists), len(red)), "complete", func() {
			r.Parallel(int64(len(lists)), 8, func(w *mc.W, i int64) {
				for _, h := range helpers {
					for _, ty := range []string{"V", "*P", "N", "P"} {
						w.Point()
						w.NonTrivial()
						p.Do(w, listArg{Helper: h, Type: ty, Custom: i%2 == 1 && !strings.HasPrefix(h, "Marshal"), Cases: lists[i]})
					}
				}
			})
			r.Parallel(int64(len(singles)), 64, func(w *mc.W, i int64) {
				for _, h := range helpers {
					w.Point()
					p.Do(w, listArg{Helper: h, Type: "N", Cases: []caseSpec{singles[i]}})
				}
			})
		})
		r.Sample("list", listArg{Helper: "MarshalJSON", Type: "*P", Cases: []caseSpec{red[12], red[0], red[2]}})
		r.Phase("serial: all histories of two helper calls on one type (6 x 6 helpers x types {T text-only, J JSON-only, V, *P, N}) x 6 judged cases", "complete for depth 2", func() {
			judged := []caseSpec{red[0], red[2], red[4], red[5], red[8], red[1]}
			r.Serial(func(w *mc.W) {
				for _, ty := range []string{"T", "J", "V", "*P", "N"} {
					for _, h1 := range helpers {
						for _, h2 := range helpers {
							for _, c := range judged {
								w.Point()
								w.NonTrivial()
								p.Do(w, listArg{Prev: h1, Helper: h2, Type: ty, Cases: []caseSpec{c}})
							}
						}
					}
				}
			})
		})
	})
}
