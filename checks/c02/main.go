// C02: roman numerals round-trip under every format flag combination.
package main

import (
	"fmt"

	"go.lstv.dev/util/roman"
	"verif/firstuse"
	"verif/libdefaults"
	"verif/mc"
	"verif/oracle"
)

type arg struct {
	N      uint64 `json:"n"`
	Flags  int    `json:"flags"`
	DefFmt int    `json:"default_format"`             // roman.DefaultFormat for this phase
	Via    string `json:"via"`                        // "formatter" or "methods"
	Max    *int   `json:"max_input_length,omitempty"` // nil = default 128
}

var maxLen = 128 // MaxInputLength of the current phase (read by back)

func reset() {
	maxLen = 128
	libdefaults.Roman()
}
func setup(a arg) {
	roman.DefaultFormat = roman.Format(a.DefFmt)
	maxLen = libdefaults.RomanMaxInputLength // default configuration: whatever the library starts with ("fits within the parser's input limit" is relative to the limit in force)
	if a.Max != nil {
		maxLen = *a.Max
	}
	roman.MaxInputLength = maxLen
}

func back(text string, n uint64, what string) (string, string) {
	if maxLen != 0 && len(text) > maxLen {
		return "", ""
	}
	if g, err := roman.DefaultParser(text, 0); err != nil || uint64(g) != n {
		return "parse_string", fmt.Sprintf("%s: DefaultParser[string](%q) = %d, %v; want %d", what, text, g, err, n)
	}
	if g, err := roman.DefaultParser([]byte(text), roman.RuleDisableEmptyAsZero); (len(text) > 0) && (err != nil || uint64(g) != n) {
		return "parse_bytes", fmt.Sprintf("%s: DefaultParser[[]byte](%q, RuleDisableEmptyAsZero) = %d, %v; want %d", what, text, g, err, n)
	}
	var u roman.Number = 77777
	if err := u.UnmarshalText([]byte(text)); err != nil || uint64(u) != n {
		return "unmarshaltext", fmt.Sprintf("%s: UnmarshalText(%q) = %d, %v; want %d", what, text, u, err, n)
	}
	if err := roman.Valid(text, 0); err != nil {
		return "valid_string", fmt.Sprintf("%s: Valid(%q) = %v", what, text, err)
	}
	type namedS string
	type namedB []byte
	if g, err := roman.DefaultParser(namedS(text), 0); err != nil || uint64(g) != n {
		return "parse_named_string", fmt.Sprintf("%s: DefaultParser[named string type](%q) = %d, %v; want %d", what, text, g, err, n)
	}
	if g, err := roman.DefaultParser(namedB(text), 0); err != nil || uint64(g) != n {
		return "parse_named_bytes", fmt.Sprintf("%s: DefaultParser[named []byte type](%q) = %d, %v; want %d", what, text, g, err, n)
	}
	if err := roman.Valid(namedS(text), 0); err != nil {
		return "valid_named_string", fmt.Sprintf("%s: Valid[named string type](%q) = %v", what, text, err)
	}
	if err := roman.Valid([]byte(text), 0); err != nil {
		return "valid_bytes", fmt.Sprintf("%s: Valid([]byte(%q)) = %v", what, text, err)
	}
	return "", ""
}

func probe(a arg) (string, string) {
	n := roman.Number(a.N)
	if a.Via == "formatter" {
		want := oracle.RomanText(a.N, a.Flags)
		out, err := roman.DefaultFormatter(nil, n, roman.Format(a.Flags))
		if err != nil || string(out) != want {
			return "formatter_text", fmt.Sprintf("DefaultFormatter(%d, flags=%#x) = %q, %v; want %q", a.N, a.Flags, out, err, want)
		}
		if a.Flags == 0 || a.Flags == 127 || a.Flags == 64 || a.N%97 == 0 { // the numeral must not depend on the destination buffer's spare capacity
			for _, spare := range []int{1, len(want), len(want) + 1, 16, 64, 200} {
				out, err := roman.DefaultFormatter(make([]byte, 0, spare), n, roman.Format(a.Flags))
				if err != nil || string(out) != want {
					return "formatter_text_with_spare_capacity", fmt.Sprintf("DefaultFormatter(make([]byte,0,%d), %d, flags=%#x) = %q, %v; want %q", spare, a.N, a.Flags, out, err, want)
				}
			}
			// a buffer that already holds a prefix, with little, exact or ample room behind it
			for _, pl := range []int{1, 10, 20} {
				for _, room := range []int{0, 1, 4, len(want) - 1, len(want), len(want) + 1, 15, 16, 40} {
					if room < 0 {
						continue
					}
					buf := make([]byte, pl, pl+room)
					for i := range buf {
						buf[i] = '.'
					}
					out, err := roman.DefaultFormatter(buf, n, roman.Format(a.Flags))
					if err != nil || len(out) < pl || string(out[pl:]) != want {
						return "formatter_text_behind_a_prefix", fmt.Sprintf("DefaultFormatter(make([]byte,%d,%d), %d, flags=%#x) = %q, %v; want the prefix followed by %q", pl, pl+room, a.N, a.Flags, out, err, want)
					}
				}
			}
		}
		return back(want, a.N, fmt.Sprintf("n=%d flags=%#x", a.N, a.Flags))
	}
	// methods under roman.DefaultFormat = a.DefFmt
	want := oracle.RomanText(a.N, a.DefFmt)
	if b, err := n.MarshalText(); err != nil || string(b) != want {
		return "marshaltext", fmt.Sprintf("MarshalText(%d) under DefaultFormat=%#x = %q, %v; want %q", a.N, a.DefFmt, b, err, want)
	}
	if s := n.String(); s != want {
		return "string", fmt.Sprintf("String(%d) under DefaultFormat=%#x = %q want %q", a.N, a.DefFmt, s, want)
	}
	if s := fmt.Sprintf("%s", n); s != want {
		return "verb_s", fmt.Sprintf("%%s of %d under DefaultFormat=%#x = %q want %q", a.N, a.DefFmt, s, want)
	}
	if k, d := back(want, a.N, fmt.Sprintf("n=%d DefaultFormat=%#x", a.N, a.DefFmt)); k != "" {
		return k, d
	}
	long := oracle.RLong4 | oracle.RLong40 | oracle.RLong400 | oracle.RLong9 | oracle.RLong90 | oracle.RLong900
	for _, v := range []struct {
		verb  string
		flags int
	}{{"%R", 0}, {"%r", oracle.RLower}, {"%L", long}, {"%l", long | oracle.RLower}} {
		w := oracle.RomanText(a.N, v.flags)
		if s := fmt.Sprintf(v.verb, n); s != w {
			return "verb", fmt.Sprintf("%s of %d = %q want %q", v.verb, a.N, s, w)
		}
		if a.DefFmt == 0 {
			if k, d := back(w, a.N, fmt.Sprintf("n=%d verb %s", a.N, v.verb)); k != "" {
				return k, d
			}
		}
	}
	return "", ""
}

type flightArg struct {
	A uint64 `json:"a"`
	B uint64 `json:"b"`
	F int    `json:"flags"`
}

// a numeral handed out by one call must still read the same after a later call
func probeFlight(p flightArg) (string, string) {
	wa, wb := oracle.RomanText(p.A, 0), oracle.RomanText(p.B, 0)
	ta, _ := roman.Number(p.A).MarshalText()
	tb, _ := roman.Number(p.B).MarshalText()
	fa, _ := roman.DefaultFormatter(nil, roman.Number(p.A), roman.Format(p.F))
	fb, _ := roman.DefaultFormatter(nil, roman.Number(p.B), roman.Format(p.F))
	if string(ta) != wa || string(tb) != wb || string(fa) != oracle.RomanText(p.A, p.F) || string(fb) != oracle.RomanText(p.B, p.F) {
		return "text_overwritten_by_later_call", fmt.Sprintf("numerals of %d and %d kept across later calls read %q, %q, %q, %q", p.A, p.B, ta, tb, fa, fb)
	}
	if g, err := roman.DefaultParser(ta, 0); err != nil || uint64(g) != p.A {
		return "text_overwritten_by_later_call", fmt.Sprintf("the numeral kept from MarshalText(%d) parses to %d, %v after later calls", p.A, uint64(g), err)
	}
	// the caller may write into a returned slice: later calls must not be affected by that
	defer mc.Scribble(ta, tb, fa, fb)()
	ta2, _ := roman.Number(p.A).MarshalText()
	fb2, _ := roman.DefaultFormatter(nil, roman.Number(p.B), roman.Format(p.F))
	if string(ta2) != wa || string(fb2) != oracle.RomanText(p.B, p.F) || roman.Number(p.A).String() != wa {
		return "text_affected_by_caller_writing_into_earlier_result", fmt.Sprintf("after the caller overwrote earlier results: MarshalText(%d) = %q (want %q), DefaultFormatter(%d) = %q", p.A, ta2, wa, p.B, fb2)
	}
	return "", ""
}

// history through one reused buffer: format a, parse it, format b into the same buffer, parse it
type reuseArg struct {
	A uint64 `json:"a"`
	B uint64 `json:"b"`
	F int    `json:"flags"`
}

func probeReuse(p reuseArg) (string, string) {
	buf := make([]byte, 0, 64)
	buf, _ = roman.DefaultFormatter(buf[:0], roman.Number(p.A), roman.Format(p.F))
	_, _ = roman.DefaultParser(buf, 0)
	buf, _ = roman.DefaultFormatter(buf[:0], roman.Number(p.B), roman.Format(p.F))
	if want := oracle.RomanText(p.B, p.F); string(buf) != want {
		return "after_previous_step:formatter_text", fmt.Sprintf("after formatting and parsing %d in the same buffer, %d formats as %q want %q", p.A, p.B, buf, want)
	}
	if g, err := roman.DefaultParser(buf, 0); err != nil || uint64(g) != p.B {
		return "after_previous_step:parse_bytes", fmt.Sprintf("after formatting and parsing %d in the same buffer, the numeral of %d (%q) parses to %d, %v", p.A, p.B, buf, uint64(g), err)
	}
	var u roman.Number = 77777
	if err := u.UnmarshalText(buf); err != nil || uint64(u) != p.B {
		return "after_previous_step:unmarshaltext", fmt.Sprintf("after formatting and parsing %d in the same buffer, UnmarshalText(%q) = %d, %v; want %d", p.A, buf, uint64(u), err, p.B)
	}
	if len(buf) > 0 {
		if err := roman.Valid(buf, 0); err != nil {
			return "after_previous_step:valid", fmt.Sprintf("Valid(%q) = %v", buf, err)
		}
	}
	return "", ""
}

func main() {
	mc.Main("C02", "every n in [0,130000] x all 128 flag subsets through DefaultFormatter and back through every parser entry point; every n x every DefaultFormat through MarshalText/String/%s and the four verbs; "+
		"non-trivial = numeral contains a 4 or 9 digit or a five-symbol together with a flag that affects it", func(r *mc.Run) {
		firstuse.Phase(r, map[string][]string{"roman": {"format", "parse", "valid"}})
		r.Reset = reset
		reset()
		p := mc.NewProbe(r, "roundtrip", setup, probe)
		r.Assume("reference: independent digit-by-digit generator (one/five/ten symbol per decimal place, explicit 4/9 rules, ASCII case shift)")
		r.Assume("numbers whose numeral is longer than MaxInputLength=128 are only formatted, not parsed back")
		const N = 130000
		pfl := mc.NewProbe(r, "two_results_in_flight", nil, probeFlight)
		r.Phase("serial: two numerals in flight (a result must survive later calls), all ordered pairs of 14 numbers x 3 flag sets", "complete for the listed numbers", func() {
			r.Serial(func(w *mc.W) {
				ns := []uint64{1, 4, 9, 14, 40, 90, 400, 900, 1994, 3888, 3999, 4999, 666, 2024}
				for _, a := range ns {
					for _, b := range ns {
						for _, f := range []int{0, 64, 127} {
							w.Point()
							pfl.Do(w, flightArg{a, b, f})
						}
					}
				}
			})
		})
		r.Phase("n in [0,130000] x 128 flag sets: DefaultFormatter text and round trip through DefaultParser[string|[]byte], UnmarshalText, Valid", "complete", func() {
			r.Parallel(N+1, 64, func(w *mc.W, i int64) {
				n := uint64(i)
				nt := false
				for x := n % 1000; x > 0; x /= 10 {
					if d := x % 10; d == 4 || d == 9 || d >= 5 {
						nt = true
					}
				}
				for f := 0; f < 128; f++ {
					w.Point()
					if nt && f != 0 {
						w.NonTrivial()
					}
					p.Do(w, arg{N: n, Flags: f, Via: "formatter"})
				}
				w.Outcome(fmt.Sprintf("len<=128:%v", len(oracle.RomanText(n, 0)) <= 128))
			})
		})
		r.Sample("formatter", arg{N: 3999, Flags: 0x7f, Via: "formatter"})
		for _, ml := range []int{0, 400, 200} {
			ml := ml
			r.Phase(fmt.Sprintf("MaxInputLength=%d: n in [120000,420000] step 7 and every multiple of 1000 x flag sets {0,63,64,127}: format and parse back", ml), "complete for the listed numbers", func() {
				setup(arg{Max: &ml})
				r.Parallel(300001, 256, func(w *mc.W, i int64) {
					n := uint64(120000 + i)
					if i%7 != 0 && n%1000 != 0 && n%1000 != 999 {
						return
					}
					for _, f := range []int{0, 63, 64, 127} {
						w.Point()
						w.NonTrivial()
						p.Do(w, arg{N: n, Flags: f, Via: "formatter", Max: &ml})
					}
				})
				reset()
			})
		}
		pr := mc.NewProbe(r, "reused_buffer_history", nil, probeReuse)
		r.Phase("serial: all histories of two format-then-parse steps through one reused buffer over 20 numbers x 3 flag sets", "complete for depth 2 over the listed numbers", func() {
			ns := []uint64{4, 6, 9, 11, 40, 60, 90, 110, 400, 600, 900, 1100, 1994, 1996, 3999, 0, 1, 5, 14, 16}
			r.Serial(func(w *mc.W) {
				for _, a := range ns {
					for _, b := range ns {
						for _, f := range []int{0, 64, 127} {
							w.Point()
							pr.Do(w, reuseArg{a, b, f})
						}
					}
				}
			})
		})
		dfs := []int{0, 64, 63, 127, 1, 2, 4, 8, 16, 32, 9, 18, 36, 73}
		if !r.Quick() {
			dfs = dfs[:0]
			for f := 0; f < 128; f++ {
				dfs = append(dfs, f)
			}
		}
		for _, df := range dfs {
			df := df
			r.Phase(fmt.Sprintf("n in [0,130000]: MarshalText/String/%%s/%%v and verbs %%R %%r %%L %%l under DefaultFormat=%#x", df), "complete for this DefaultFormat", func() {
				setup(arg{DefFmt: df})
				r.Parallel(N+1, 256, func(w *mc.W, i int64) {
					w.Point()
					w.NonTrivial()
					p.Do(w, arg{N: uint64(i), DefFmt: df, Via: "methods"})
				})
				reset()
			})
		}
		r.Sample("methods", arg{N: 1994, DefFmt: 64, Via: "methods"})
	})
}
