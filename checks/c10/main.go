// C10: the roman parser recognises exactly the documented numerals with the right value.
package main

import (
	"errors"
	"fmt"
	"strings"

	"go.lstv.dev/util/roman"
	"verif/firstuse"
	"verif/libdefaults"
	"verif/mc"
	"verif/oracle"
)

// named input types (the entry points accept ~string | ~[]byte)
type Text string
type Raw []byte

type arg struct {
	In   mc.Bin `json:"in"`
	Rule int    `json:"rule"`
	Max  *int   `json:"max_input_length,omitempty"` // nil = default 128
	Prev *prev  `json:"previous_call,omitempty"`    // history of depth 2: this call is made first, on the buffer that is then reused for In
}

type prev struct {
	In   mc.Bin `json:"in"`
	Rule int    `json:"rule"`
	Via  int    `json:"via"` // 0: DefaultParser[[]byte] on the shared buffer, 1: DefaultParser[string], 2: Valid on the shared buffer, 3: UnmarshalText on the shared buffer
}

// buffer for the []byte paths: fresh, or (history) the buffer of the previous call overwritten in place
func bufferFor(a arg) []byte {
	if a.Prev == nil {
		return append([]byte(nil), a.In...)
	}
	buf := make([]byte, 0, 512)
	buf = append(buf, a.Prev.In...)
	switch a.Prev.Via { // exactly one previous call, so that no other call disturbs whatever state it may leave behind
	case 0:
		_, _ = roman.DefaultParser(buf, roman.Rule(a.Prev.Rule))
	case 1:
		_, _ = roman.DefaultParser(string(a.Prev.In), roman.Rule(a.Prev.Rule))
	case 2:
		_ = roman.Valid(buf, roman.Rule(a.Prev.Rule))
	default:
		var n roman.Number
		_ = n.UnmarshalText(buf)
	}
	return append(buf[:0], a.In...)
}

func reset() {
	libdefaults.Roman()
}

// typedFor: the error is typed by the kind of input that was passed
func typedFor(err error, bytesInput bool) bool {
	if bytesInput {
		var b *roman.NumberFormatError[[]byte]
		return errors.As(err, &b)
	}
	var a *roman.NumberFormatError[string]
	return errors.As(err, &a)
}

// expect: accept?, value
func setup(a arg) {
	roman.MaxInputLength = libdefaults.RomanMaxInputLength // default configuration: whatever the library starts with (the oracle assumes the documented 128)
	if a.Max != nil {
		roman.MaxInputLength = *a.Max
	}
}

func expect(in []byte, rule int) (bool, uint64, bool) {
	return expectMax(in, rule, libdefaults.RomanMaxInputLength)
}

func expectMax(in []byte, rule, max int) (bool, uint64, bool) {
	if len(in) == 0 {
		return rule&int(roman.RuleDisableEmptyAsZero) == 0, 0, false
	}
	if max != 0 && len(in) > max {
		return false, 0, false
	}
	v := oracle.RomanParse(in)
	if len(v) > 1 {
		return false, 0, true
	}
	if len(v) == 0 {
		return false, 0, false
	}
	return true, v[0], false
}

func probe(a arg) (string, string) {
	in := []byte(a.In)
	max := libdefaults.RomanMaxInputLength // the limit in force in the default configuration (the statement does not fix its value)
	if a.Max != nil {
		max = *a.Max
	}
	acc, val, amb := expectMax(in, a.Rule, max)
	if amb {
		return "oracle_ambiguous", fmt.Sprintf("reference grammar is ambiguous on %q (harness defect)", in)
	}
	rule := roman.Rule(a.Rule)
	cp := bufferFor(a)
	judge := func(path string, got roman.Number, err error) (string, string) {
		if acc {
			if err != nil {
				return "numeral_rejected", fmt.Sprintf("%s(%q, rule=%d) rejected: %v; reference value %d", path, in, a.Rule, err, val)
			}
			if uint64(got) != val {
				return "wrong_value", fmt.Sprintf("%s(%q) = %d, reference value %d", path, in, uint64(got), val)
			}
			return "", ""
		}
		if err == nil {
			return "non_numeral_accepted", fmt.Sprintf("%s(%q, rule=%d) accepted with value %d; not in the documented language", path, in, a.Rule, uint64(got))
		}
		if got != 0 {
			return "nonzero_result_with_error", fmt.Sprintf("%s(%q) = %d with error %v", path, in, uint64(got), err)
		}
		if !typedFor(err, path != "DefaultParser[string]") {
			return "untyped_error", fmt.Sprintf("%s(%q): %T %v is not a *roman.NumberFormatError of the input's type", path, in, err, err)
		}
		return "", ""
	}
	if a.Prev != nil { // history: the reused buffer is parsed first, directly after the previous call
		g, err := roman.DefaultParser(cp, rule)
		if k, d := judge("DefaultParser[[]byte]", g, err); k != "" {
			return "after_previous_call:" + k, fmt.Sprintf("after DefaultParser(%q, rule=%d) on the same buffer: %s", a.Prev.In, a.Prev.Rule, d)
		}
	}
	g, err := roman.DefaultParser(string(in), rule)
	if k, d := judge("DefaultParser[string]", g, err); k != "" {
		return k, d
	}
	g, err = roman.DefaultParser(cp, rule)
	if k, d := judge("DefaultParser[[]byte]", g, err); k != "" {
		return k, d
	}
	// named string / byte-slice types are inputs like any other
	gn, errn := roman.DefaultParser(Text(in), rule)
	if k, d := judge("DefaultParser[named string]", gn, errn); k != "" && k != "untyped_error" {
		return k, d
	}
	gn, errn = roman.DefaultParser(Raw(cp), rule)
	if k, d := judge("DefaultParser[named []byte]", gn, errn); k != "" && k != "untyped_error" {
		return k, d
	}
	for i, verr := range []error{roman.Valid(Text(in), rule), roman.Valid(Raw(cp), rule)} {
		if (verr == nil) != acc {
			return "valid_disagrees", fmt.Sprintf("Valid[named type %d](%q, rule=%d) = %v but the numeral is accepted=%v", i, in, a.Rule, verr, acc)
		}
	}
	for i, verr := range []error{roman.Valid(string(in), rule), roman.Valid(cp, rule)} {
		if (verr == nil) != acc {
			return "valid_disagrees", fmt.Sprintf("Valid[%d](%q, rule=%d) = %v but the numeral is accepted=%v", i, in, a.Rule, verr, acc)
		}
		if verr != nil && !typedFor(verr, i == 1) {
			return "untyped_error", fmt.Sprintf("Valid(%q): %T %v", in, verr, verr)
		}
	}
	if a.Rule == 0 {
		var u roman.Number = 424242
		err := u.UnmarshalText(cp)
		if err != nil {
			u = 0
		}
		if k, d := judge("UnmarshalText", u, err); k != "" {
			return k, d
		}
	}
	// case-insensitivity of the value: upper and lower renderings evaluate alike
	if acc {
		up, lo := strings.ToUpper(string(in)), strings.ToLower(string(in))
		gu, e1 := roman.DefaultParser(up, rule)
		gl, e2 := roman.DefaultParser(lo, rule)
		if e1 != nil || e2 != nil || gu != gl || uint64(gu) != val {
			return "case_dependent_value", fmt.Sprintf("%q: upper %q = %d,%v lower %q = %d,%v reference %d", in, up, uint64(gu), e1, lo, uint64(gl), e2, val)
		}
	}
	return "", ""
}

func main() {
	mc.Main("C10", "all strings over the roman letters (both cases) up to the stated lengths, plus 1-deviation foreign-byte mutants of valid numerals, against a group-table evaluator that tries every split; "+
		"non-trivial = the reference evaluator accepts the text", func(r *mc.Run) {
		firstuse.Phase(r, map[string][]string{"roman": {"parse", "valid"}})
		r.Reset = reset
		reset()
		p := mc.NewProbe(r, "parse", setup, probe)
		r.Assume("reference: M* then hundreds/tens/units, each group additive (optional five-symbol + up to four one-symbols) or subtractive (four/nine form), ASCII case folding, every split tried")
		r.Assume("inputs longer than MaxInputLength=128 must be rejected (the error class is C18's)")
		one := func(w *mc.W, s []byte) {
			for rule := 0; rule < 2; rule++ {
				w.Point()
				acc, _, _ := expect(s, rule)
				if acc {
					w.NonTrivial()
					w.Outcome("accept")
				} else {
					w.Outcome("reject")
				}
				p.Do(w, arg{In: mc.Bin(s), Rule: rule})
			}
		}
		mixL, monoL := 5, 7
		if !r.Quick() {
			mixL, monoL = 6, 8
		}
		r.Phase(fmt.Sprintf("all strings over {IVXLCDMivxlcdm} of length 0..%d x 2 rules x all entry points", mixL), "complete", func() {
			r.Strings([]byte("IVXLCDMivxlcdm"), 0, mixL, one)
		})
		r.Phase(fmt.Sprintf("all upper-case strings over {IVXLCDM} of length %d..%d", mixL+1, monoL), "complete", func() {
			r.Strings([]byte("IVXLCDM"), mixL+1, monoL, one)
		})
		r.Phase(fmt.Sprintf("all lower-case strings over {ivxlcdm} of length %d..%d", mixL+1, monoL), "complete", func() {
			r.Strings([]byte("ivxlcdm"), mixL+1, monoL, one)
		})
		r.Sample("string", arg{In: "dclxvi", Rule: 0})
		r.Phase("serial: all histories of two calls over 30 texts x 2 rules x 4 kinds of first call (the second call is judged; the caller reuses one buffer)", "complete for depth 2 over the listed texts", func() {
			texts := []string{"", "I", "IV", "XII", "XIV", "XIQ", "xii", "cd", "cm", "CD", "CM", "MCMXCIV", "MCMXCVI", "mcmxciv", "IIII", "IIIII", "VX", "MMXXIV", "MMXXIX", "Q", "D", "d", "DC", "dc", "XL", "XC", "xl", "LX", "M", "MIM"}
			r.Serial(func(w *mc.W) {
				for _, x := range texts {
					for rx := 0; rx < 2; rx++ {
						for _, y := range texts {
							for ry := 0; ry < 2; ry++ {
								for via := 0; via < 4; via++ {
									w.Point()
									p.Do(w, arg{In: mc.Bin(y), Rule: ry, Prev: &prev{mc.Bin(x), rx, via}})
								}
							}
						}
					}
				}
			})
		})
		// every number 0..4999 in 4 renderings, alternating case in both phases
		r.Phase("canonical numerals of 0..4999 in short and long form, in upper, lower and the two alternating-case renderings", "complete for this set", func() {
			r.Parallel(5000, 16, func(w *mc.W, i int64) {
				for _, fl := range []int{0, 63} {
					t := []byte(oracle.RomanText(uint64(i), fl))
					one(w, t)
					lo := []byte(strings.ToLower(string(t)))
					one(w, lo)
					for ph := 0; ph < 2; ph++ {
						alt := append([]byte(nil), t...)
						for k := range alt {
							if (k+ph)%2 == 0 {
								alt[k] += 'a' - 'A'
							}
						}
						one(w, alt)
					}
				}
			})
		})
		bases := []string{}
		for _, n := range []uint64{1, 4, 9, 14, 19, 40, 49, 90, 99, 400, 444, 499, 900, 949, 999, 1994, 2024, 3888, 3999, 4000, 4999, 5555, 8, 80, 800, 666} {
			bases = append(bases, oracle.RomanText(n, 0), oracle.RomanText(n, 127), oracle.RomanText(n, 63))
		}
		r.Phase(fmt.Sprintf("special words (null, nil, true, NaN, {}, ...) and 1-deviation mutants (substitute/insert all 256 byte values, delete) of %d valid numerals", len(bases)), "complete for 1 deviation", func() {
			r.Parallel(int64(len(bases)), 1, func(w *mc.W, i int64) {
				mc.Mutations1([]byte(bases[i]), mc.AllBytes, func(m []byte) { one(w, m) })
				mc.MutationsTok([]byte(bases[i]), mc.Lookalikes, func(m []byte) { one(w, m) })
				one(w, []byte(bases[i]+"\n"))
				if i == 0 {
					for _, sw := range mc.SpecialWords {
						one(w, []byte(sw))
					}
				}
			})
		})
		r.Sample("mutant", arg{In: "MCMXCſ", Rule: 0})
		for _, ml := range []int{0, 1000, 300, 5} {
			ml := ml
			r.Phase(fmt.Sprintf("MaxInputLength=%d: M-runs of every length 0..700 (3 case renderings) x 6 tails", ml), "complete grid", func() {
				setup(arg{Max: &ml})
				r.Parallel(701, 4, func(w *mc.W, i int64) {
					for _, tail := range []string{"", "I", "xLiV", "CMXCIX", "IIIII", "dccclxxxviii"} {
						for c := 0; c < 3; c++ {
							run := []byte(strings.Repeat("M", int(i)))
							for k := range run {
								if c == 1 || c == 2 && k%2 == 0 {
									run[k] = 'm'
								}
							}
							s := append(run, tail...)
							for rule := 0; rule < 2; rule++ {
								w.Point()
								p.Do(w, arg{In: mc.Bin(s), Rule: rule, Max: &ml})
							}
						}
					}
				})
				reset()
			})
		}
		r.Phase("M-runs of every length 0..140 (upper, lower, alternating case) followed by each of 14 tails: thousands counting and the length limit", "complete grid", func() {
			r.Parallel(141, 1, func(w *mc.W, i int64) {
				for _, tail := range []string{"", "I", "CM", "cmxcix", "DCCCLXXXVIII", "IIIII", "Z", "iv", "CD", "XL", "dccccLXXXXviiii", "MI", "IM", "D"} {
					for c := 0; c < 3; c++ {
						run := []byte(strings.Repeat("M", int(i)))
						for k := range run {
							if c == 1 || c == 2 && k%2 == 0 {
								run[k] = 'm'
							}
						}
						one(w, append(run, tail...))
					}
				}
			})
		})
	})
}
