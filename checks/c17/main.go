// C17: failed parses leave receiver and input untouched; string and bytes agree.
package main

import (
	"bytes"
	"encoding/json"
	"encoding/xml"
	"errors"
	"fmt"
	"strings"
	"time"

	"go.lstv.dev/util/date"
	"go.lstv.dev/util/roman"
	"go.lstv.dev/util/sem"
	"go.lstv.dev/util/size"
	"go.lstv.dev/util/uu"
	"verif/firstuse"
	"verif/libdefaults"
	"verif/mc"
)

func reset() {
	libdefaults.All()
}

func globals() string {
	return fmt.Sprint(date.MaxInputLength, roman.MaxInputLength, roman.DefaultFormat, sem.MaxInputLength, size.MaxInputLength, size.MaxObjectKeys, size.DefaultRule,
		size.DisableMarshalTextUnit, size.DisableMarshalJSONStringForm, size.DisableMarshalJSONObjectForm, uu.MaxInputLength)
}

// ------------------------------------------------------------ E2: receiver histories
type op[T comparable] struct {
	name  string
	in    []byte                         // input bytes (nil for Scan ops)
	apply func(recv *T, in []byte) error // calls the real method
}

type machine[T comparable] struct {
	typ  string
	zero T
	ops  []op[T]
	show func(T) string
}

type histArg struct {
	Type    string `json:"type"`
	History []int  `json:"history"` // op indexes applied from the zero receiver
	Op      int    `json:"op"`
	OpName  string `json:"op_name"`
	// SizeRule: the value of size.DefaultRule in force for the whole history (nil = the library's initial value)
	SizeRule *int `json:"size_default_rule,omitempty"`
}

func (m *machine[T]) replayTo(hist []int) T {
	s := m.zero
	for _, k := range hist {
		o := m.ops[k]
		_ = o.apply(&s, append([]byte(nil), o.in...))
	}
	return s
}

func (m *machine[T]) check(a histArg) (string, string) {
	s := m.replayTo(a.History)
	o := m.ops[a.Op]
	recv := s
	in := append([]byte(nil), o.in...)
	g0 := globals()
	err := o.apply(&recv, in)
	if g1 := globals(); g0 != g1 {
		return "global_state_modified", fmt.Sprintf("%s %s: package globals changed from %s to %s", m.typ, o.name, g0, g1)
	}
	if !bytes.Equal(in, o.in) {
		return "input_modified", fmt.Sprintf("%s %s: input %q became %q", m.typ, o.name, o.in, in)
	}
	if err != nil && recv != s {
		return "receiver_modified_on_error", fmt.Sprintf("%s %s on receiver %s failed (%v) but the receiver is now %s", m.typ, o.name, m.show(s), err, m.show(recv))
	}
	// differential: the same call on the zero receiver must behave the same way
	z := m.zero
	zerr := o.apply(&z, append([]byte(nil), o.in...))
	if (zerr == nil) != (err == nil) {
		return "outcome_depends_on_receiver", fmt.Sprintf("%s %s: from %s -> err %v, from zero -> err %v", m.typ, o.name, m.show(s), err, zerr)
	}
	if err == nil && recv != z {
		return "result_depends_on_receiver", fmt.Sprintf("%s %s: from %s -> %s, from zero -> %s", m.typ, o.name, m.show(s), m.show(recv), m.show(z))
	}
	if err != nil && zerr.Error() != err.Error() {
		return "error_depends_on_receiver", fmt.Sprintf("%s %s: %q vs %q", m.typ, o.name, err, zerr)
	}
	// overwrite the input buffer afterwards: the decoded value must not change
	before := m.show(recv)
	snapshot := recv
	for i := range in {
		in[i] = 0xFF
	}
	if recv != snapshot || m.show(recv) != before {
		return "value_aliases_input_buffer", fmt.Sprintf("%s %s: value %s changed to %s after the input buffer was overwritten", m.typ, o.name, before, m.show(recv))
	}
	return "", ""
}

type bfsResult struct {
	states, transitions, depth int
	fix                        bool
}

func bfs[T comparable](r *mc.Run, w *mc.W, m *machine[T], p *mc.Probe[histArg], maxDepth int, sizeRule ...int) bfsResult {
	var cfg *int
	if len(sizeRule) > 0 {
		cfg = &sizeRule[0]
		old := size.DefaultRule
		size.DefaultRule = size.Rule(sizeRule[0])
		defer func() { size.DefaultRule = old }()
	}
	seen := map[T][]int{m.zero: {}}
	frontier := []T{m.zero}
	res := bfsResult{}
	for len(frontier) > 0 {
		if res.depth >= maxDepth {
			res.states = len(seen)
			return res
		}
		res.depth++
		var next []T
		for _, s := range frontier {
			h := seen[s]
			for k := range m.ops {
				res.transitions++
				p.Do(w, histArg{Type: m.typ, History: h, Op: k, OpName: m.ops[k].name, SizeRule: cfg})
				t := s
				_ = m.ops[k].apply(&t, append([]byte(nil), m.ops[k].in...))
				if _, ok := seen[t]; !ok {
					seen[t] = append(append([]int(nil), h...), k)
					next = append(next, t)
				}
			}
		}
		frontier = next
	}
	res.states, res.fix = len(seen), true
	return res
}

// ---- op alphabets
func textOps[T comparable](name string, f func(*T, []byte) error, inputs []string) []op[T] {
	var ops []op[T]
	for _, in := range inputs {
		ops = append(ops, op[T]{name: fmt.Sprintf("%s(%q)", name, in), in: []byte(in), apply: f})
	}
	return ops
}

func jsonWrap[T comparable](inputs []string) []op[T] {
	var ops []op[T]
	for _, in := range inputs {
		ops = append(ops, op[T]{name: fmt.Sprintf("json.Unmarshal(%s)", in), in: []byte(in), apply: func(r *T, b []byte) error { return json.Unmarshal(b, r) }})
		ops = append(ops, op[T]{name: fmt.Sprintf("json.Unmarshal({\"f\":%s}) into struct field", in), in: []byte(`{"f":` + in + `}`), apply: func(r *T, b []byte) error {
			box := struct {
				F *T `json:"f"`
			}{F: r}
			return json.Unmarshal(b, &box)
		}})
	}
	return ops
}

func xmlWrap[T comparable](inputs []string) []op[T] {
	var ops []op[T]
	for _, in := range inputs {
		ops = append(ops, op[T]{name: fmt.Sprintf("xml.Unmarshal(<x>%s</x>)", in), in: []byte("<x>" + in + "</x>"), apply: func(r *T, b []byte) error { return xml.Unmarshal(b, r) }})
	}
	return ops
}

func mutants(valid []string, vals string) []string {
	var out []string
	seen := map[string]bool{}
	for _, v := range valid {
		mc.Mutations1([]byte(v), []byte(vals), func(m []byte) {
			if !seen[string(m)] {
				seen[string(m)] = true
				out = append(out, string(m))
			}
		})
	}
	return out
}

func dateMachine(deep bool) *machine[date.Date] {
	valid := []string{"2024-02-29", "20240229", "0001-01-01", "9999-12-31", "2002-08-07", "1999-12-31"}
	bad := []string{"", "2023-02-29", "2024-02-30", "2024-13-01", "2024-00-10", "2024-1-1", "2024-02-29x", "12345-01-01", "2024-02-29-", "abcd-ef-gh", strings.Repeat("2", 40), "2024/02/29"}
	if deep {
		bad = append(bad, mutants(valid[:3], "0-9a\xff")...)
	} else {
		bad = append(bad, mutants(valid[:1], "0-9")...)
	}
	m := &machine[date.Date]{typ: "date.Date", show: func(d date.Date) string { y, mo, dd := d.Date(); return fmt.Sprintf("%d-%d-%d", y, mo, dd) }}
	m.ops = append(m.ops, textOps("UnmarshalText", (*date.Date).UnmarshalText, append(valid, bad...))...)
	bin := func(y, mo, d int) string { b, _ := date.New(y, date.Month(mo), d).MarshalBinary(); return string(b) }
	bins := []string{bin(2024, 2, 29), bin(1, 1, 1), bin(-44, 3, 15), "", "\x01", "\x02\x00\x00\x07\xe8\x02\x1d", "\x01\x00\x00\x07\xe8\x02", "\x01\x00\x00\x07\xe8\x02\x1d\x00", "\x01\x00\x00\x07\xe8\x0d\x20", "\x01\x00\x00\x07\xe7\x02\x1d", "\x01\x00\x00\x07\xe8\x00\x00", "\x00\x00\x00\x07\xe8\x02\x1d", "\x01\xff\xff\xff\xff\xff\xff"}
	m.ops = append(m.ops, textOps("UnmarshalBinary", (*date.Date).UnmarshalBinary, bins)...)
	t1 := time.Date(2020, 5, 17, 23, 59, 59, 0, time.FixedZone("e", 7200))
	for _, src := range []any{t1, time.Date(1987, 6, 5, 0, 0, 0, 0, time.UTC), time.Time{}, time.Date(3000000000, 1, 2, 0, 0, 0, 0, time.UTC), time.Date(-3000000000, 1, 2, 0, 0, 0, 0, time.UTC), nil, "2020-01-01", []byte("2020-01-01"), int64(5), &t1, 3.5, date.New(2020, 1, 1),
		// what database drivers deliver for DATE / DATETIME columns when they do not convert: text with a time part, valid and broken
		"2019-05-06 10:20:30", []byte("2019-05-06 10:20:30"), "2019-05-06 25:61:00", []byte("2019-05-06 25:61:00"), "2019-05-06T99:00:00Z", "2019-05-06 ", "2019-05-06x", "2019-02-30 00:00:00", "2018-07-08T01:02:03+02:00", []byte("2018-07-08Tgarbage"), "", []byte{}, (*time.Time)(nil), (*string)(nil)} {
		src := src
		m.ops = append(m.ops, op[date.Date]{name: fmt.Sprintf("Scan(%T %v)", src, src), apply: func(r *date.Date, _ []byte) error { return r.Scan(src) }})
	}
	m.ops = append(m.ops, jsonWrap[date.Date]([]string{`"2024-02-29"`, `"1987-06-05"`, `"2023-02-29"`, `"bad"`, `12`, `{}`, `"2024-02-29`, `""`})...)
	m.ops = append(m.ops, xmlWrap[date.Date]([]string{"2024-02-29", "1987-06-05", "2023-02-30", "", "x"})...)
	return m
}

func romanMachine(deep bool) *machine[roman.Number] {
	valid := []string{"", "I", "iv", "MCMXCIV", "mmxxiv", "IIII", "Dc"}
	bad := []string{"IIIII", "A", "IVI", "VV", "IXX", strings.Repeat("M", 129), "MCMXCIV ", " I", "I\n", "ⅯⅯ"}
	if deep {
		bad = append(bad, mutants(valid[1:4], "IVXivx1 \xff")...)
	} else {
		bad = append(bad, mutants(valid[3:4], "IVz")...)
	}
	m := &machine[roman.Number]{typ: "roman.Number", show: func(n roman.Number) string { return fmt.Sprint(uint64(n)) }}
	m.ops = append(m.ops, textOps("UnmarshalText", (*roman.Number).UnmarshalText, append(valid, bad...))...)
	m.ops = append(m.ops, jsonWrap[roman.Number]([]string{`"XII"`, `"xii"`, `"ABC"`, `12`, `""`, `"IIIII"`})...)
	m.ops = append(m.ops, xmlWrap[roman.Number]([]string{"XLII", "abc", ""})...)
	return m
}

func semMachine(deep bool) *machine[sem.Ver] {
	valid := []string{"1.2.3", "v1.2.3-rc.1+b.5", "0.0.0", "10.20.30-alpha", "v2.0.0+meta", "18446744073709551615.0.1--"}
	bad := []string{"", "1.2", "1.2.3.4", "01.2.3", "1.2.3-", "1.2.3+", "1.2.3-01", "v", "vv1.2.3", "18446744073709551616.0.0", "1.2.3 ", "1.2.3\n", "1.2.3-é", strings.Repeat("1", 1025),
		"1.2.3-" + strings.Repeat("a", 70) + "..b", strings.Repeat("x", 100), "1.2.3+" + strings.Repeat("0", 500) + "!", "v" + strings.Repeat("9", 66)}
	if deep {
		bad = append(bad, mutants(valid[:3], "01.-+va\xff")...)
	} else {
		bad = append(bad, mutants(valid[1:2], ".-+")...)
	}
	m := &machine[sem.Ver]{typ: "sem.Ver", show: func(v sem.Ver) string {
		return fmt.Sprintf("%d.%d.%d pre=%q build=%q", v.Major, v.Minor, v.Patch, v.PreRelease, v.Build)
	}}
	m.ops = append(m.ops, textOps("UnmarshalText", (*sem.Ver).UnmarshalText, append(valid, bad...))...)
	m.ops = append(m.ops, jsonWrap[sem.Ver]([]string{`"1.2.3-rc.1+b.5"`, `"v3.0.0"`, `"1.2"`, `12`, `""`})...)
	m.ops = append(m.ops, xmlWrap[sem.Ver]([]string{"4.5.6-x", "4.5", ""})...)
	return m
}

func sizeMachine(deep bool) *machine[size.Size] {
	valid := []string{"0", "12", "1KiB", "1 024 kB", "16EiB", "18446744073709551615", " 7 B "}
	bad := []string{"", "17EiB", "1XB", "-1", "1.5", "kB", "18446744073709551616", "1 K iB", strings.Repeat("1", 129), "1ZB", "0XB"}
	if deep {
		bad = append(bad, mutants(valid[2:5], "0 _KiBk-\xff")...)
	} else {
		bad = append(bad, mutants(valid[2:3], "0Kx")...)
	}
	m := &machine[size.Size]{typ: "size.Size", show: func(s size.Size) string { return fmt.Sprint(uint64(s)) }}
	m.ops = append(m.ops, textOps("UnmarshalText", (*size.Size).UnmarshalText, append(valid, bad...))...)
	js := []string{`12`, `"1KiB"`, `{"value":3,"unit":"MiB"}`, `{"unit":"kB","value":5,"x":[1,{"value":9}]}`, `0`, `{"value":1}`, `{"unit":"B"}`, `{"value":1,"value":2,"unit":"B"}`, `{"value":"1","unit":"B"}`, `{"value":1,"unit":"XB"}`,
		`{"value":17,"unit":"EiB"}`, `-1`, `1.5`, `"x"`, `null`, `true`, `[1]`, `{"value":1,"unit":"B"`, `{"value":1,"unit":"B"} x`, `12 13`, ``, `{`, `"1KiB`, `{"value":1,"unit":"B"]`,
		// insignificant white space inside and around the value (accepted and rejected documents): the given bytes must stay as they are
		`{"value": 1, "unit": "KiB"}`, ` 12 `, "\t\"1KiB\"\n", `{ "value" : 3 , "unit" : "MiB" }`, "{\n  \"unit\": \"kB\",\n  \"value\": 5\n}", `{"value": 1, "unit": "B"} x`, `{"value": 1, "unit": "XB"}`, `[ 1 , 2 ]`, `{"value": 1 }`, " \"1 024 KiB\" "}
	m.ops = append(m.ops, textOps("UnmarshalJSON", (*size.Size).UnmarshalJSON, js)...)
	m.ops = append(m.ops, jsonWrap[size.Size]([]string{`77`, `"2KiB"`, `{"value":9,"unit":"GB"}`, `"2XB"`, `{"value":9}`, `-5`})...)
	return m
}

func uuMachine(deep bool) *machine[uu.ID] {
	valid := []string{"00000000-0000-0000-0000-000000000000", "ed7059f3-6fc0-4b0c-9b7a-2ea5a0b4b8f1", "URN:uuid:ED7059F3-6FC0-4B0C-9B7A-2EA5A0B4B8F2", "urn:uuid:01234567-89ab-cdef-0123-456789abcdef", "ffffffff-ffff-ffff-ffff-ffffffffffff"}
	bad := []string{"", "ed7059f3-6fc0-4b0c-9b7a-2ea5a0b4b8f", "ed7059f3-6fc0-4b0c-9b7a-2ea5a0b4b8f1a", "ed7059f36fc0-4b0c-9b7a-2ea5a0b4b8f1a", "gd7059f3-6fc0-4b0c-9b7a-2ea5a0b4b8f1", "urn:uuid:ed7059f3-6fc0-4b0c-9b7a-2ea5a0b4b8fg", "urn;uuid:ed7059f3-6fc0-4b0c-9b7a-2ea5a0b4b8f1", strings.Repeat("a", 46), "ed7059f3-6fc0-4b0c-9b7a-2ea5a0b4b8f\xff"}
	if deep {
		bad = append(bad, mutants(valid[1:2], "0-g\xff")...)
	} else {
		bad = append(bad, mutants(valid[1:2], "-")...)
	}
	m := &machine[uu.ID]{typ: "uu.ID", show: func(i uu.ID) string { return fmt.Sprintf("%016x%016x", i.Higher, i.Lower) }}
	m.ops = append(m.ops, textOps("UnmarshalText", (*uu.ID).UnmarshalText, append(valid, bad...))...)
	m.ops = append(m.ops, jsonWrap[uu.ID]([]string{`"ed7059f3-6fc0-4b0c-9b7a-2ea5a0b4b8f3"`, `"zz"`, `5`, `""`})...)
	m.ops = append(m.ops, xmlWrap[uu.ID]([]string{"ed7059f3-6fc0-4b0c-9b7a-2ea5a0b4b8f4", "nope"})...)
	return m
}

// ------------------------------------------------------------ E1: string / []byte / named types agree
type S string
type B []byte

type agreeArg struct {
	Entry string `json:"entry"`
	In    mc.Bin `json:"in"`
	In2   mc.Bin `json:"in2,omitempty"`
}

type outcome struct {
	val string
	err string
}

func oc(v any, err error) outcome {
	o := outcome{val: fmt.Sprintf("%+v", v)}
	if err != nil {
		o.err = err.Error()
	}
	return o
}

// acc keeps acceptance and value only (the wrappers of the Unmarshal* methods prefix the message; the messages of the
// instantiations themselves are compared by the DefaultParser entries).
func acc(v any, err error) outcome {
	if err != nil {
		return outcome{val: "(rejected)"}
	}
	return outcome{val: fmt.Sprintf("%+v", v)}
}

func init() {
	// the receiver's UnmarshalText on the bytes against the generic parser on the same content as a string (and named types)
	entries["date.Date.UnmarshalText ~ DefaultParser[string]"] = func(a, _ string) [4]outcome {
		var d date.Date
		err := d.UnmarshalText([]byte(a))
		return [4]outcome{acc(date.DefaultParser(a, 0)), acc(d, err), acc(date.DefaultParser(S(a), 0)), acc(date.DefaultParser(B(a), 0))}
	}
	entries["roman.Number.UnmarshalText ~ DefaultParser[string]"] = func(a, _ string) [4]outcome {
		var d roman.Number
		err := d.UnmarshalText([]byte(a))
		return [4]outcome{acc(roman.DefaultParser(a, 0)), acc(d, err), acc(roman.DefaultParser(S(a), 0)), acc(roman.DefaultParser(B(a), 0))}
	}
	entries["sem.Ver.UnmarshalText ~ DefaultParser[string]"] = func(a, _ string) [4]outcome {
		var d sem.Ver
		err := d.UnmarshalText([]byte(a))
		return [4]outcome{acc(sem.DefaultParser(a, 0)), acc(d, err), acc(sem.DefaultParser(S(a), 0)), acc(sem.DefaultParser(B(a), 0))}
	}
	entries["size.Size.UnmarshalText ~ DefaultParser[string]"] = func(a, _ string) [4]outcome {
		var d size.Size
		err := d.UnmarshalText([]byte(a))
		return [4]outcome{acc(size.DefaultParser(a, 0)), acc(d, err), acc(size.DefaultParser(S(a), 0)), acc(size.DefaultParser(B(a), 0))}
	}
	entries["uu.ID.UnmarshalText ~ DefaultParser[string]"] = func(a, _ string) [4]outcome {
		var d uu.ID
		err := d.UnmarshalText([]byte(a))
		return [4]outcome{acc(uu.DefaultParser(a, 0)), acc(d, err), acc(uu.DefaultParser(S(a), 0)), acc(uu.DefaultParser(B(a), 0))}
	}
}

var entries = map[string]func(a, b string) [4]outcome{
	"date.DefaultParser(0)": func(a, _ string) [4]outcome {
		return [4]outcome{oc(date.DefaultParser(a, 0)), oc(date.DefaultParser([]byte(a), 0)), oc(date.DefaultParser(S(a), 0)), oc(date.DefaultParser(B(a), 0))}
	},
	"date.DefaultParser(RuleDisableBasic)": func(a, _ string) [4]outcome {
		return [4]outcome{oc(date.DefaultParser(a, 1)), oc(date.DefaultParser([]byte(a), 1)), oc(date.DefaultParser(S(a), 1)), oc(date.DefaultParser(B(a), 1))}
	},
	"roman.DefaultParser(0)": func(a, _ string) [4]outcome {
		return [4]outcome{oc(roman.DefaultParser(a, 0)), oc(roman.DefaultParser([]byte(a), 0)), oc(roman.DefaultParser(S(a), 0)), oc(roman.DefaultParser(B(a), 0))}
	},
	"roman.DefaultParser(RuleDisableEmptyAsZero)": func(a, _ string) [4]outcome {
		return [4]outcome{oc(roman.DefaultParser(a, 1)), oc(roman.DefaultParser([]byte(a), 1)), oc(roman.DefaultParser(S(a), 1)), oc(roman.DefaultParser(B(a), 1))}
	},
	"roman.Valid": func(a, _ string) [4]outcome {
		return [4]outcome{oc(0, roman.Valid(a, 0)), oc(0, roman.Valid([]byte(a), 0)), oc(0, roman.Valid(S(a), 0)), oc(0, roman.Valid(B(a), 0))}
	},
	"sem.Parse": func(a, _ string) [4]outcome {
		return [4]outcome{oc(sem.Parse(a)), oc(sem.Parse([]byte(a))), oc(sem.Parse(S(a))), oc(sem.Parse(B(a)))}
	},
	"sem.ParseVersion": func(a, _ string) [4]outcome {
		return [4]outcome{oc(sem.ParseVersion(a)), oc(sem.ParseVersion([]byte(a))), oc(sem.ParseVersion(S(a))), oc(sem.ParseVersion(B(a)))}
	},
	"sem.ParseTag": func(a, _ string) [4]outcome {
		return [4]outcome{oc(sem.ParseTag(a)), oc(sem.ParseTag([]byte(a))), oc(sem.ParseTag(S(a))), oc(sem.ParseTag(B(a)))}
	},
	"sem.DefaultParser(RuleDisableTag)": func(a, _ string) [4]outcome {
		return [4]outcome{oc(sem.DefaultParser(a, 1)), oc(sem.DefaultParser([]byte(a), 1)), oc(sem.DefaultParser(S(a), 1)), oc(sem.DefaultParser(B(a), 1))}
	},
	"sem.Compare": func(a, b string) [4]outcome {
		return [4]outcome{oc(sem.Compare(a, b)), oc(sem.Compare([]byte(a), []byte(b))), oc(sem.Compare(S(a), B(b))), oc(sem.Compare(B(a), b))}
	},
	"sem.CompareTag": func(a, b string) [4]outcome {
		return [4]outcome{oc(sem.CompareTag(a, b)), oc(sem.CompareTag([]byte(a), []byte(b))), oc(sem.CompareTag(S(a), B(b))), oc(sem.CompareTag(B(a), b))}
	},
	"sem.Latest": func(a, b string) [4]outcome {
		return [4]outcome{oc(sem.Latest(a, b)), oc(sem.Latest([]byte(a), []byte(b))), oc(sem.Latest(S(a), B(b))), oc(sem.Latest(B(a), b))}
	},
	"sem.LatestVersion": func(a, b string) [4]outcome {
		return [4]outcome{oc(sem.LatestVersion(a, b)), oc(sem.LatestVersion([]byte(a), []byte(b))), oc(sem.LatestVersion(S(a), B(b))), oc(sem.LatestVersion(B(a), b))}
	},
	"sem.LatestTag": func(a, b string) [4]outcome {
		return [4]outcome{oc(sem.LatestTag(a, b)), oc(sem.LatestTag([]byte(a), []byte(b))), oc(sem.LatestTag(S(a), B(b))), oc(sem.LatestTag(B(a), b))}
	},
	"sem.DefaultComparePreRelease": func(a, b string) [4]outcome {
		return [4]outcome{oc(sem.DefaultComparePreRelease(a, b), nil), oc(sem.DefaultComparePreRelease([]byte(a), []byte(b)), nil), oc(sem.DefaultComparePreRelease(S(a), B(b)), nil), oc(sem.DefaultComparePreRelease(B(a), b), nil)}
	},
	"size.DefaultParser(0)": func(a, _ string) [4]outcome {
		return [4]outcome{oc(size.DefaultParser(a, 0)), oc(size.DefaultParser([]byte(a), 0)), oc(size.DefaultParser(S(a), 0)), oc(size.DefaultParser(B(a), 0))}
	},
	"size.DefaultParser(RuleDisableUnit)": func(a, _ string) [4]outcome {
		return [4]outcome{oc(size.DefaultParser(a, 1)), oc(size.DefaultParser([]byte(a), 1)), oc(size.DefaultParser(S(a), 1)), oc(size.DefaultParser(B(a), 1))}
	},
	"size.DefaultParser(JSON forms)": func(a, _ string) [4]outcome {
		return [4]outcome{oc(size.DefaultParser(a, 14)), oc(size.DefaultParser([]byte(a), 14)), oc(size.DefaultParser(S(a), 14)), oc(size.DefaultParser(B(a), 14))}
	},
	"uu.DefaultParser(0)": func(a, _ string) [4]outcome {
		return [4]outcome{oc(uu.DefaultParser(a, 0)), oc(uu.DefaultParser([]byte(a), 0)), oc(uu.DefaultParser(S(a), 0)), oc(uu.DefaultParser(B(a), 0))}
	},
	"uu.DefaultParser(all rules)": func(a, _ string) [4]outcome {
		return [4]outcome{oc(uu.DefaultParser(a, 3)), oc(uu.DefaultParser([]byte(a), 3)), oc(uu.DefaultParser(S(a), 3)), oc(uu.DefaultParser(B(a), 3))}
	},
}

// buffer reuse: the caller decodes every record into one buffer; each call must agree with the string instantiation on the same content
var reuseEntries = map[string]struct {
	b func([]byte) outcome
	s func(string) outcome
}{
	"date.DefaultParser":       {func(b []byte) outcome { return oc(date.DefaultParser(b, 0)) }, func(s string) outcome { return oc(date.DefaultParser(s, 0)) }},
	"date.UnmarshalText":       {func(b []byte) outcome { var d date.Date; err := d.UnmarshalText(b); return oc(d, unwrapOnce(err)) }, func(s string) outcome { return oc(date.DefaultParser(s, 0)) }},
	"roman.DefaultParser":      {func(b []byte) outcome { return oc(roman.DefaultParser(b, 0)) }, func(s string) outcome { return oc(roman.DefaultParser(s, 0)) }},
	"roman.Valid":              {func(b []byte) outcome { return oc(0, roman.Valid(b, 0)) }, func(s string) outcome { return oc(0, roman.Valid(s, 0)) }},
	"sem.Parse":                {func(b []byte) outcome { return oc(sem.Parse(b)) }, func(s string) outcome { return oc(sem.Parse(s)) }},
	"sem.ParseTag":             {func(b []byte) outcome { return oc(sem.ParseTag(b)) }, func(s string) outcome { return oc(sem.ParseTag(s)) }},
	"sem.DefaultParser":        {func(b []byte) outcome { return oc(sem.DefaultParser(b, 0)) }, func(s string) outcome { return oc(sem.DefaultParser(s, 0)) }},
	"size.DefaultParser(text)": {func(b []byte) outcome { return oc(size.DefaultParser(b, 0)) }, func(s string) outcome { return oc(size.DefaultParser(s, 0)) }},
	"size.DefaultParser(JSON)": {func(b []byte) outcome { return oc(size.DefaultParser(b, 6)) }, func(s string) outcome { return oc(size.DefaultParser(s, 6)) }},
	"uu.DefaultParser":         {func(b []byte) outcome { return oc(uu.DefaultParser(b, 0)) }, func(s string) outcome { return oc(uu.DefaultParser(s, 0)) }},
}

func unwrapOnce(err error) error {
	if err == nil {
		return nil
	}
	if u := errors.Unwrap(err); u != nil {
		return u
	}
	return err
}

type reuseArg struct {
	Entry string `json:"entry"`
	A     mc.Bin `json:"first_content"`
	B     mc.Bin `json:"second_content"`
}

func probeReuse(a reuseArg) (string, string) {
	e := reuseEntries[a.Entry]
	wantA, want := e.s(string(a.A)), e.s(string(a.B)) // reference answers first: nothing else may run between the two calls on the shared buffer
	buf := make([]byte, 0, 256)
	buf = append(buf, a.A...)
	first := e.b(buf)
	buf = append(buf[:0], a.B...) // the same backing array, overwritten in place
	second := e.b(buf)
	if first.val != wantA.val || (first.err == "") != (wantA.err == "") {
		return "value_differs", fmt.Sprintf("%s: []byte(%q) gives %+v, string gives %+v", a.Entry, a.A, first, wantA)
	}
	if second.val != want.val || (second.err == "") != (want.err == "") {
		return "stale_or_different_result_on_reused_buffer", fmt.Sprintf("%s: after parsing %q, the same buffer now holding %q gives %+v; the string instantiation gives %+v", a.Entry, a.A, a.B, second, want)
	}
	if string(buf) != string(a.B) {
		return "input_modified", fmt.Sprintf("%s: the buffer holding %q now reads %q", a.Entry, a.B, buf)
	}
	return "", ""
}

func probeAgree(a agreeArg) (string, string) {
	f, ok := entries[a.Entry]
	if !ok {
		panic("harness: unknown entry " + a.Entry)
	}
	o := f(string(a.In), string(a.In2))
	names := [4]string{"string", "[]byte", "named string type", "named []byte type"}
	for i := 1; i < 4; i++ {
		if o[i].val != o[0].val {
			return "value_differs", fmt.Sprintf("%s(%q,%q): %s gives %s, %s gives %s", a.Entry, a.In, a.In2, names[0], o[0].val, names[i], o[i].val)
		}
		if o[i].err != o[0].err {
			return "error_message_differs", fmt.Sprintf("%s(%q,%q): %s gives %q, %s gives %q", a.Entry, a.In, a.In2, names[0], o[0].err, names[i], o[i].err)
		}
	}
	return "", ""
}

func main() {
	mc.Main("C17", "E2: explicit-state BFS over all histories of Unmarshal*/Scan/json/xml calls on one receiver per type, state = the real receiver value, run to the fix-point; E1: every short string over per-package alphabets through every parser entry point in its string, []byte and named-type instantiations; "+
		"non-trivial = transition from a non-zero receiver state / input accepted by the entry point", func(r *mc.Run) {
		firstuse.Phase(r, map[string][]string{"date": {"parse", "binary"}, "roman": {"parse"}, "sem": {"parse"}, "size": {"parse", "json"}, "uu": {"parse"}})
		r.Reset = reset
		reset()
		deep := !r.Quick()
		dm, rm, sm, zm, um := dateMachine(deep), romanMachine(deep), semMachine(deep), sizeMachine(deep), uuMachine(deep)
		pH := mc.NewProbe(r, "history", nil, func(a histArg) (string, string) {
			if a.SizeRule != nil {
				old := size.DefaultRule
				size.DefaultRule = size.Rule(*a.SizeRule)
				defer func() { size.DefaultRule = old }()
			}
			switch a.Type {
			case dm.typ:
				return dm.check(a)
			case rm.typ:
				return rm.check(a)
			case sm.typ:
				return sm.check(a)
			case zm.typ:
				return zm.check(a)
			case um.typ:
				return um.check(a)
			}
			panic("harness: unknown type " + a.Type)
		})
		pA := mc.NewProbe(r, "agree", nil, probeAgree)
		r.Assume("state = receiver value: no Unmarshal*/Scan/parser writes a package global (re-checked on every transition by snapshotting the globals)")
		r.Assume("E2 oracle: error => receiver bit-identical to the pre-state; input bytes unchanged; outcome/value/error text identical to the same call on the zero receiver (differential); value unchanged after the input buffer is overwritten with 0xFF")
		totalStates, totalTrans := 0, 0
		run := func(name string, f func(w *mc.W) bfsResult, nops int) {
			r.Phase(fmt.Sprintf("E2 %s: BFS over histories of %d operations from the zero receiver", name, nops), "to fix-point (no depth bound)", func() {
				r.Serial(func(w *mc.W) {
					res := f(w)
					w.Points(int64(res.states))
					for i := 1; i < res.states; i++ {
						w.NonTrivial()
					}
					w.Outcome(fmt.Sprintf("%s fixpoint=%v", name, res.fix))
					totalStates += res.states
					totalTrans += res.transitions
					r.Extra["bfs_"+name] = map[string]any{"states": res.states, "transitions": res.transitions, "depth": res.depth, "fix_point": res.fix, "operations": nops}
					if !res.fix {
						r.Infra("BFS for %s did not reach a fix-point within depth 64", name)
					}
				})
			})
		}
		run(dm.typ, func(w *mc.W) bfsResult { return bfs(r, w, dm, pH, 64) }, len(dm.ops))
		run(rm.typ, func(w *mc.W) bfsResult { return bfs(r, w, rm, pH, 64) }, len(rm.ops))
		run(sm.typ, func(w *mc.W) bfsResult { return bfs(r, w, sm, pH, 64) }, len(sm.ops))
		run(zm.typ, func(w *mc.W) bfsResult { return bfs(r, w, zm, pH, 64) }, len(zm.ops))
		run(um.typ, func(w *mc.W) bfsResult { return bfs(r, w, um, pH, 64) }, len(um.ops))
		for rule := 0; rule < 16; rule++ { // the size machine again under every value of size.DefaultRule (which forms UnmarshalText/UnmarshalJSON accept)
			rule := rule
			run(fmt.Sprintf("%s with size.DefaultRule=%d", zm.typ, rule), func(w *mc.W) bfsResult { return bfs(r, w, zm, pH, 64, rule) }, len(zm.ops))
		}
		r.Sample("history", histArg{Type: "date.Date", History: []int{0}, Op: 7, OpName: dm.ops[7].name})

		// E1 agreement
		type uni struct {
			entries []string
			alpha   string
			maxLen  int
			bases   []string
		}
		q := func(a, b int) int {
			if r.Quick() {
				return a
			}
			return b
		}
		unis := []uni{
			{[]string{"date.DefaultParser(0)", "date.DefaultParser(RuleDisableBasic)", "date.Date.UnmarshalText ~ DefaultParser[string]"}, "0129-", q(6, 8), []string{"2024-02-29", "20240229", "2023-02-29", "12345-01-01", "2024-02-29\n", " 2024-02-29\r\n"}},
			{[]string{"roman.DefaultParser(0)", "roman.DefaultParser(RuleDisableEmptyAsZero)", "roman.Valid", "roman.Number.UnmarshalText ~ DefaultParser[string]"}, "IVXMivxm", q(5, 6), []string{"MCMXCIV", "mmxxiv", "MCMXCIV\n", " mmxxiv\r\n"}},
			{[]string{"sem.Parse", "sem.ParseVersion", "sem.ParseTag", "sem.DefaultParser(RuleDisableTag)", "sem.Ver.UnmarshalText ~ DefaultParser[string]"}, "01a-.+v", q(6, 7), []string{"1.2.3-rc.1+b", "v1.2.3", "18446744073709551616.0.0", "v1.2.3\n", " 1.2.3-rc.1+b\r\n"}},
			{[]string{"size.DefaultParser(0)", "size.DefaultParser(RuleDisableUnit)", "size.DefaultParser(JSON forms)", "size.Size.UnmarshalText ~ DefaultParser[string]"}, "01 _kBKi\"{-.", q(5, 6), []string{"1 024 KiB", `{"value":1,"unit":"B"}`, `{"value":1,"unit":"B","x":1}`, `"1KiB"`, `{"value":1}`, `17EiB`}},
			{[]string{"uu.DefaultParser(0)", "uu.DefaultParser(all rules)", "uu.ID.UnmarshalText ~ DefaultParser[string]"}, "0aF-:", q(4, 5), []string{"ed7059f3-6fc0-4b0c-9b7a-2ea5a0b4b8f1\n", "ed7059f3-6fc0-4b0c-9b7a-2ea5a0b4b8f1", "URN:uuid:ED7059F3-6FC0-4B0C-9B7A-2EA5A0B4B8F2", "urn:uuid:ed7059f3-6fc0-4b0c-9b7a-2ea5a0b4b8f1"}},
		}
		// every rule value of the size parser (the messages of the JSON forms quote members and units)
		for rule := 0; rule < 16; rule++ {
			rule := rule
			entries[fmt.Sprintf("size.DefaultParser(rule=%d)", rule)] = func(a, _ string) [4]outcome {
				rr := size.Rule(rule)
				return [4]outcome{oc(size.DefaultParser(a, rr)), oc(size.DefaultParser([]byte(a), rr)), oc(size.DefaultParser(S(a), rr)), oc(size.DefaultParser(B(a), rr))}
			}
		}
		r.Phase("E1 agreement size.DefaultParser under each of the 16 rule values: 40 documents (text, number, string and object form; valid, invalid, unit present while disabled, unknown keys, trailing data) and their 1-deviation mutants over 12 byte values, in 4 instantiations", "complete for the listed documents", func() {
			docs := []string{"12", "1KiB", "1 024 kB", "17EiB", "1XB", "", `10`, `"10 KiB"`, `"10"`, `"1 XB"`, `{"value":1,"unit":"KiB"}`, `{"value":1,"unit":"B"}`, `{"value":1,"unit":""}`, `{"unit":"MB","value":2,"x":[1]}`,
				`{"value":1}`, `{"unit":"B"}`, `{"value":1,"unit":"B","value":2}`, `{"value":"1","unit":"B"}`, `{"value":1,"unit":2}`, `{"value":1,"unit":"XB"}`, `{"value":17,"unit":"EiB"}`, `{"value":-1,"unit":"B"}`,
				`10 20`, `10 KiB`, `{"value":1,"unit":"KiB"} x`, `"10 KiB" "x"`, `[1]`, `null`, `1.5`, `1e3`, `{`, `{"value":1,"unit":"KiB"`, `"1KiB`, ` 12 `, `{"value": 1, "unit": "KiB"}`, `{"VALUE":1,"Unit":"kB"}`, `{"value":1,"unit":"KiB","unit":"B"}`,
				`{"x":{"value":1},"value":2,"unit":"B"}`, `{"value":18446744073709551616,"unit":"B"}`, `"` + strings.Repeat("1", 130) + `"`}
			r.Parallel(int64(len(docs)), 1, func(w *mc.W, i int64) {
				f := func(m []byte) {
					for rule := 0; rule < 16; rule++ {
						w.Point()
						w.NonTrivial()
						pA.Do(w, agreeArg{Entry: fmt.Sprintf("size.DefaultParser(rule=%d)", rule), In: mc.Bin(m)})
					}
				}
				f([]byte(docs[i]))
				mc.Mutations1([]byte(docs[i]), []byte("0 \"{}:,xB\\\xff"), f)
			})
			r.Serial(func(w *mc.W) { w.Outcome("agreement size rules") })
		})
		for _, u := range unis {
			u := u
			r.Phase(fmt.Sprintf("E1 agreement %v: all strings over %q up to length %d + 1-deviation mutants (256 values) of %d texts, in 4 instantiations", u.entries, u.alpha, u.maxLen, len(u.bases)), "complete", func() {
				r.Strings([]byte(u.alpha), 0, u.maxLen, func(w *mc.W, s []byte) {
					for _, e := range u.entries {
						w.Point()
						pA.Do(w, agreeArg{Entry: e, In: mc.Bin(s)})
					}
				})
				r.Parallel(int64(len(u.bases)), 1, func(w *mc.W, i int64) {
					f := func(m []byte) {
						for _, e := range u.entries {
							w.Point()
							w.NonTrivial()
							pA.Do(w, agreeArg{Entry: e, In: mc.Bin(m)})
						}
					}
					f([]byte(u.bases[i]))
					mc.Mutations1([]byte(u.bases[i]), mc.AllBytes, f)
				})
				r.Serial(func(w *mc.W) { w.Outcome("agreement " + u.entries[0]) })
			})
		}
		pR := mc.NewProbe(r, "buffer_reuse", nil, probeReuse)
		reuseTexts := map[string][]string{
			"date":  {"2024-02-29", "2024-02-28", "20240229", "20240228", "2023-02-29", "1999-12-31", "x", "", "2024-02-2x"},
			"roman": {"XII", "XIV", "XIQ", "cd", "cm", "MMXXIV", "MMXXVI", "", "iiii", "iiiii"},
			"sem":   {"1.2.3", "1.2.4", "1.2.x", "v1.2.3", "1.2.3-rc.1", "1.2.3-rc.2", "1.2.3-rc..", "1.2.3+b1", "1.2.3+b2", "", "9.9.9-a+b", "9.9.9-a+c"},
			"size":  {"1KiB", "2KiB", "1XiB", "12", "13", "1x", `{"value":1,"unit":"B"}`, `{"value":2,"unit":"B"}`, `{"value":2,"unit":"X"}`, `"1kB"`, `"2kB"`, ""},
			"uu":    {"ed7059f3-6fc0-4b0c-9b7a-2ea5a0b4b8f1", "ed7059f3-6fc0-4b0c-9b7a-2ea5a0b4b8f2", "ed7059f3-6fc0-4b0c-9b7a-2ea5a0b4b8fg", "urn:uuid:ed7059f3-6fc0-4b0c-9b7a-2ea5a0b4b8f1", "urn:uuid:ed7059f3-6fc0-4b0c-9b7a-2ea5a0b4b8f3", ""},
		}
		r.Phase("serial: buffer reuse - every ordered pair of contents decoded one after the other into one buffer, 10 entry points, against the string instantiation", "complete for the listed contents", func() {
			r.Serial(func(w *mc.W) {
				for name := range reuseEntries {
					texts := reuseTexts[strings.SplitN(name, ".", 2)[0]]
					for _, a := range texts {
						for _, b := range texts {
							w.Point()
							w.NonTrivial()
							pR.Do(w, reuseArg{name, mc.Bin(a), mc.Bin(b)})
						}
					}
				}
				w.Outcome("buffer reuse")
			})
		})
		two := []string{"sem.Compare", "sem.CompareTag", "sem.Latest", "sem.LatestVersion", "sem.LatestTag", "sem.DefaultComparePreRelease"}
		var pool []string
		var gen func(cur string, n int)
		gen = func(cur string, n int) {
			pool = append(pool, cur, "1.0.0-"+cur, "v1.0.0-"+cur)
			if n == q(2, 3) {
				return
			}
			for _, c := range "1a.-é" {
				gen(cur+string(c), n+1)
			}
		}
		gen("", 0)
		r.Phase(fmt.Sprintf("E1 agreement of the two-argument helpers %v on all %d^2 pairs of short texts", two, len(pool)), "complete", func() {
			r.Parallel(int64(len(pool)), 1, func(w *mc.W, i int64) {
				for _, b := range pool {
					for _, e := range two {
						w.Point()
						pA.Do(w, agreeArg{Entry: e, In: mc.Bin(pool[i]), In2: mc.Bin(b)})
					}
				}
			})
		})
		r.Sample("agree", agreeArg{Entry: "size.DefaultParser(JSON forms)", In: `{"value":1}`})
		r.Extra["bfs_states_total"] = totalStates
		r.Extra["bfs_transitions_total"] = totalTrans
	})
}
