// C12: size JSON forms are gated by rules and objects are read faithfully.
package main

import (
	"encoding/json"
	"errors"
	"fmt"
	"math/big"
	"strings"

	"go.lstv.dev/util/size"
	"verif/firstuse"
	"verif/libdefaults"
	"verif/mc"
	"verif/oracle"
)

func reset() {
	curMaxLen = 128
	libdefaults.Size()
}

type arg struct {
	Doc     mc.Bin  `json:"doc"`
	Members []int   `json:"members,omitempty"` // object document given as indexes into the member alphabet (streamed phases); Doc is then derived
	Rule    int     `json:"rule"`
	Max     int     `json:"max_object_keys"`
	Prev    *mc.Bin `json:"previous_call,omitempty"`    // history of depth 2: parsed first (same rule), on the buffer that is then reused
	MaxLen  *int    `json:"max_input_length,omitempty"` // nil = default 128
	Via     int     `json:"previous_via,omitempty"`     // the single previous call: 0 DefaultParser[[]byte] on the shared buffer, 1 DefaultParser[string], 2 UnmarshalJSON on the shared buffer
}

var curMaxLen = 128

func setup(a arg) {
	size.MaxObjectKeys = a.Max
	size.DefaultRule = size.Rule(a.Rule)
	curMaxLen = libdefaults.SizeMaxInputLength // default configuration: whatever the library starts with (the statement does not fix the default limit)
	if a.MaxLen != nil {
		curMaxLen = *a.MaxLen
	}
	size.MaxInputLength = curMaxLen
}

// ---------------------------------------------------------------- AST
type valKind int

const (
	vGoodNum valKind = iota // non-negative integer in digits-only form, fits uint64
	vDCNum                  // integral but not digits-only (1.0, 1e2, -0): don't care
	vBadNum                 // negative, fractional, overflowing
	vString
	vOther // null, bool, object, array
)

type member struct {
	key  string // JSON text of the key including quotes
	kcls int    // 0 value, 1 unit, 2 unknown
	val  string // JSON text of the value
	vk   valKind
	n    uint64 // for numbers
	s    string // decoded string content for vString
}

func mv(key string, val string, vk valKind, n uint64) member {
	return member{key: `"` + key + `"`, kcls: 0, val: val, vk: vk, n: n}
}
func mu(key string, val string, vk valKind, s string) member {
	return member{key: `"` + key + `"`, kcls: 1, val: val, vk: vk, s: s}
}
func mx(key string, val string) member {
	return member{key: `"` + key + `"`, kcls: 2, val: val, vk: vOther}
}

var alphabet = []member{
	mv("value", "1", vGoodNum, 1), mu("unit", `"B"`, vString, "B"), mx("x", "1"),
	mv("value", "0", vGoodNum, 0), mv("value", "1024", vGoodNum, 1024), mv("VALUE", "2", vGoodNum, 2), mv("Value", "16", vGoodNum, 16),
	mv("value", "18446744073709551615", vGoodNum, 18446744073709551615), mv("value", "18446744073709551616", vBadNum, 0), mv("value", "-1", vBadNum, 0), mv("value", "1.5", vBadNum, 0),
	mv("value", "1.0", vDCNum, 1), mv("value", "1e2", vDCNum, 100),
	mv("value", `"1"`, vString, 0), mv("value", "null", vOther, 0), mv("value", "{}", vOther, 0), mv("value", "[1]", vOther, 0), mv("value", "true", vOther, 0), mv("value", `{"value":1}`, vOther, 0),
	mu("unit", `"KiB"`, vString, "KiB"), mu("UNIT", `"kB"`, vString, "kB"), mu("Unit", `"EiB"`, vString, "EiB"), mu("unit", `""`, vString, ""), mu("unit", `"ZB"`, vString, "ZB"), mu("unit", `"XB"`, vString, "XB"), mu("unit", `"kib"`, vString, "kib"),
	mu("unit", `"KiB"`, vString, "KiB"),
	mu("unit", "1", vGoodNum, ""), mu("unit", "null", vOther, ""), mu("unit", `{"unit":"B"}`, vOther, ""), mu("unit", `["B"]`, vOther, ""),
	mx("x", `"s"`), mx("x", "null"), mx("x", "true"), mx("x", "[]"), mx("x", "{}"), mx("x", "[1,[2,[3,[4]]]]"), mx("x", `{"value":5,"unit":"MB"}`), mx("x", `{"a":{"b":{"c":{"unit":"B","value":9}}}}`),
	mx("x", `[{"value":1},{"unit":"B"}]`), mx("values", "1"), mx("unit ", `"B"`), mx("", "0"), mx("valu", "1"), mx("x", `"}"`), mx("y", `"]{"`), mx("x", "-1.5e-3"),
	// (appended: the indices above are referred to by `reduced`) unit texts with white space: the value-unit pair is what size.New gets
	mu("unit", `" KiB"`, vString, " KiB"), mu("unit", `"MB\t"`, vString, "MB\t"), mu("unit", `" "`, vString, " "),
}

// reduced alphabet (indices into alphabet) for the deepest sequences
var reduced = []int{0, 1, 2, 3, 5, 8, 11, 13, 19, 20, 27, 35, 37, 40}

func objDoc(ms []member, ws int) string {
	var sb strings.Builder
	sp := []string{"", " ", "\n\t "}[ws]
	sb.WriteString(sp + "{" + sp)
	for i, m := range ms {
		if i > 0 {
			sb.WriteString(sp + "," + sp)
		}
		sb.WriteString(m.key + sp + ":" + sp + m.val)
	}
	sb.WriteString(sp + "}" + sp)
	return sb.String()
}

// ---------------------------------------------------------------- expectation
type expectation struct {
	cls     int // 0 accept, 1 reject, 2 don't care
	value   uint64
	valueOK bool           // for don't care: accepted results must equal value
	allowed map[error]bool // for reject: acceptable sentinels; nil or anyErr => any error
	anyErr  bool
	why     string
}

func rejectAny(why string) expectation { return expectation{cls: 1, anyErr: true, why: why} }

func fromText(e oracle.SizeExpect, rule int, why string) expectation {
	switch e.Class {
	case oracle.SAccept:
		if rule&int(size.RuleDisableUnit) != 0 && e.HasUnit {
			return expectation{cls: 2, value: e.Value, valueOK: true, why: why + ": unit present while RuleDisableUnit is set (statement silent for JSON forms)"}
		}
		return expectation{cls: 0, value: e.Value, why: why}
	case oracle.SReject:
		return rejectAny(why + ": " + e.Why)
	}
	return expectation{cls: 2, value: e.Value, valueOK: e.ValueOK, why: why + ": " + e.Why}
}

func expectObject(ms []member, rule, max int) expectation {
	if rule&int(size.RuleEnableJSONObjectForm) == 0 {
		return rejectAny("object form not enabled")
	}
	ex := expectation{cls: 1, allowed: map[error]bool{}}
	var why []string
	add := func(err error, w string) {
		if err == nil {
			ex.anyErr = true
		} else {
			ex.allowed[err] = true
		}
		why = append(why, w)
	}
	nv, nu := 0, 0
	var val *member
	var unit *member
	dc := false
	if max != 0 && len(ms) > max {
		add(size.ErrObjectTooBig, fmt.Sprintf("%d members > max %d", len(ms), max))
	}
	for i := range ms {
		m := &ms[i]
		switch m.kcls {
		case 0:
			nv++
			switch m.vk {
			case vGoodNum:
				if val == nil {
					val = m
				}
			case vDCNum:
				dc = true
				if val == nil {
					val = m
				}
			case vBadNum:
				add(nil, "value member is not a non-negative integer below 2^64")
			default:
				add(size.ErrInvalidType, "value member is not a number")
			}
		case 1:
			nu++
			if m.vk == vString {
				if unit == nil {
					unit = m
				}
			} else {
				add(size.ErrInvalidType, "unit member is not a string")
			}
		default:
			if rule&int(size.RuleDisallowUnknownKeys) != 0 {
				add(size.ErrUnexpectedKey, "unknown key while unknown keys are disallowed")
			}
		}
	}
	if nv == 0 {
		add(size.ErrMissingValueKey, "value member missing")
	}
	if nu == 0 {
		add(size.ErrMissingUnitKey, "unit member missing")
	}
	if nv > 1 {
		add(size.ErrDuplicatedValueKey, "value member duplicated")
	}
	if nu > 1 {
		add(size.ErrDuplicatedUnitKey, "unit member duplicated")
	}
	if len(why) == 0 {
		res, known, ok := oracle.SizeProduct(new(big.Int).SetUint64(val.n), unit.s)
		if !known || !ok {
			add(nil, "value x unit is not representable / unit unknown")
		} else {
			ex = expectation{cls: 0, value: res}
			if rule&int(size.RuleDisableUnit) != 0 && unit.s != "" {
				ex = expectation{cls: 2, value: res, valueOK: true, why: "unit present while RuleDisableUnit is set (statement silent for the object form)"}
			}
		}
	}
	if len(why) > 0 {
		ex.why = strings.Join(why, "; ")
	}
	if dc {
		if ex.cls == 0 {
			ex.cls, ex.valueOK = 2, true
			ex.why = "value member written as 1.0 / 1e2 (integral but not digits-only)"
		} else if ex.cls == 1 {
			ex.anyErr = true
		}
	}
	return ex
}

func expectNumber(text string, rule int) expectation {
	// digits only => good
	digits := text != ""
	for i := 0; i < len(text); i++ {
		if text[i] < '0' || text[i] > '9' {
			digits = false
		}
	}
	if digits {
		v, _ := new(big.Int).SetString(text, 10)
		if v.BitLen() > 64 {
			return rejectAny("number does not fit 64 bits")
		}
		return expectation{cls: 0, value: v.Uint64()}
	}
	f, _, err := big.ParseFloat(text, 10, 300, big.ToNearestEven)
	if err == nil && f.IsInt() && f.Sign() >= 0 {
		i, _ := f.Int(nil)
		if i.BitLen() <= 64 {
			return expectation{cls: 2, value: i.Uint64(), valueOK: true, why: "integral number not written as plain digits"}
		}
	}
	return rejectAny("number is negative, fractional or too large")
}

// textMode: rules without a JSON bit read the input as plain text (C08's grammar)
func expectTextMode(doc string, rule int) expectation {
	e := oracle.SizeText(doc)
	switch e.Class {
	case oracle.SAccept:
		if rule&int(size.RuleDisableUnit) != 0 && e.HasUnit {
			return expectation{cls: 1, allowed: map[error]bool{size.ErrUnitDisabled: true}, why: "unit present while RuleDisableUnit is set"}
		}
		return expectation{cls: 0, value: e.Value}
	case oracle.SReject:
		return rejectAny("text mode: " + e.Why)
	}
	return expectation{cls: 2, value: e.Value, valueOK: e.ValueOK, why: "text mode: " + e.Why}
}

type docAST struct {
	kind    int // 0 object, 1 number, 2 string, 3 other value, 4 raw text judged by json.Valid
	members []member
	text    string // number text / decoded string content
}

var registry = map[string]docAST{} // doc text -> AST (filled by the generators, also used by replay)

func expectDoc(doc string, rule, max int) expectation { return expectDocAST(doc, nil, rule, max) }

func expectDocAST(doc string, given *docAST, rule, max int) expectation {
	if curMaxLen != 0 && len(doc) > curMaxLen {
		return rejectAny("longer than MaxInputLength")
	}
	if rule&6 == 0 {
		return expectTextMode(doc, rule)
	}
	ast, ok := docAST{}, false
	if given != nil {
		ast, ok = *given, true
	} else {
		ast, ok = lookup(doc)
	}
	if !ok {
		return rejectAny("not exactly one well-formed JSON value")
	}
	switch ast.kind {
	case 0:
		return expectObject(ast.members, rule, max)
	case 1:
		return expectNumber(ast.text, rule)
	case 2:
		if rule&int(size.RuleEnableJSONStringForm) == 0 {
			return rejectAny("string form not enabled")
		}
		return fromText(oracle.SizeText(ast.text), rule, "string form")
	default:
		return rejectAny("JSON value is neither number, string nor object")
	}
}

// lookup finds the AST of a text: registered documents, or (for mutated texts) a re-derivation:
// surrounding whitespace is insignificant; a bare JSON number is a number document.
func lookup(doc string) (docAST, bool) {
	if a, ok := registry[doc]; ok {
		return a, true
	}
	if !json.Valid([]byte(doc)) {
		return docAST{}, false
	}
	return walk(doc), true
}

// walk derives the AST of a well-formed JSON text by a token walk (encoding/json is only used as a tokenizer here;
// for generated documents the result is cross-checked against the AST the text was generated from).
func walk(doc string) docAST {
	d := json.NewDecoder(strings.NewReader(doc))
	d.UseNumber()
	t, _ := d.Token()
	switch v := t.(type) {
	case json.Number:
		return docAST{kind: 1, text: v.String()}
	case string:
		return docAST{kind: 2, text: v}
	case json.Delim:
		if v != '{' {
			return docAST{kind: 3}
		}
	default:
		return docAST{kind: 3}
	}
	a := docAST{kind: 0}
	for d.More() {
		kt, _ := d.Token()
		key := kt.(string)
		m := member{key: key, kcls: 2, vk: vOther}
		switch asciiLower(key) {
		case "value":
			m.kcls = 0
		case "unit":
			m.kcls = 1
		}
		vt, _ := d.Token()
		switch v := vt.(type) {
		case json.Number:
			e := expectNumber(v.String(), 0)
			switch {
			case e.cls == 0:
				m.vk, m.n = vGoodNum, e.value
			case e.cls == 2:
				m.vk, m.n = vDCNum, e.value
			default:
				m.vk = vBadNum
			}
		case string:
			m.vk, m.s = vString, v
		case json.Delim:
			for depth := 1; depth > 0; {
				x, err := d.Token()
				if err != nil {
					break
				}
				if dl, ok := x.(json.Delim); ok {
					if dl == '{' || dl == '[' {
						depth++
					} else {
						depth--
					}
				}
			}
		}
		a.members = append(a.members, m)
	}
	return a
}

func asciiLower(s string) string {
	b := []byte(s)
	for i, c := range b {
		if c >= 'A' && c <= 'Z' {
			b[i] = c + 'a' - 'A'
		}
	}
	return string(b)
}

func sameAST(a, b docAST) bool {
	if a.kind != b.kind || a.text != b.text && a.kind != 0 || len(a.members) != len(b.members) {
		return false
	}
	for i := range a.members {
		x, y := a.members[i], b.members[i]
		if x.kcls != y.kcls || x.vk != y.vk && !(x.kcls == 2) && !(x.kcls == 1 && x.vk != vString && y.vk != vString) || x.n != y.n && x.kcls == 0 || x.s != y.s && x.kcls == 1 {
			return false
		}
	}
	return true
}

func probe(a arg) (string, string) {
	doc := string(a.Doc)
	var given *docAST
	if len(a.Members) > 0 {
		ms := make([]member, len(a.Members))
		for i, k := range a.Members {
			ms[i] = alphabet[k]
		}
		doc = objDoc(ms, 0)
		given = &docAST{kind: 0, members: ms}
	}
	ex := expectDocAST(doc, given, a.Rule, a.Max)
	cp := []byte(doc)
	if a.Prev != nil {
		buf := make([]byte, 0, 256)
		buf = append(buf, *a.Prev...)
		switch a.Via {
		case 0:
			_, _ = size.DefaultParser(buf, size.Rule(a.Rule))
		case 1:
			_, _ = size.DefaultParser(string(*a.Prev), size.Rule(a.Rule))
		default:
			var u size.Size
			_ = u.UnmarshalJSON(buf)
		}
		cp = append(buf[:0], doc...) // the same backing array, overwritten in place
	}
	var g1, g2 size.Size
	var e1, e2 error
	if a.Prev != nil { // history: the reused buffer is parsed first, directly after the previous call
		g2, e2 = size.DefaultParser(cp, size.Rule(a.Rule))
		g1, e1 = size.DefaultParser(doc, size.Rule(a.Rule))
	} else {
		g1, e1 = size.DefaultParser(doc, size.Rule(a.Rule))
		g2, e2 = size.DefaultParser(cp, size.Rule(a.Rule))
	}
	type res struct {
		name string
		g    size.Size
		e    error
	}
	// named string / byte-slice input types behave like the plain ones
	{
		type namedS string
		nv, ne := size.DefaultParser(namedS(doc), size.Rule(a.Rule))
		bv, be := size.DefaultParser(json.RawMessage(doc), size.Rule(a.Rule))
		if nv != g1 || bv != g1 || (ne == nil) != (e1 == nil) || (be == nil) != (e1 == nil) {
			return "named_type_differs", fmt.Sprintf("DefaultParser(%s, rule=%d): plain string %d,%v named string %d,%v json.RawMessage %d,%v", doc, a.Rule, uint64(g1), e1, uint64(nv), ne, uint64(bv), be)
		}
	}
	rs := []res{{"DefaultParser[string]", g1, e1}, {"DefaultParser[[]byte]", g2, e2}}
	if a.Rule&6 != 0 {
		var u size.Size = 4242
		e3 := u.UnmarshalJSON(cp)
		if e3 != nil {
			u = 0
		}
		rs = append(rs, res{"UnmarshalJSON(DefaultRule=rule)", u, e3})
	}
	for _, r := range rs {
		switch ex.cls {
		case 0:
			if r.e != nil {
				return "valid_document_rejected", fmt.Sprintf("%s(%s, rule=%d, MaxObjectKeys=%d) rejected: %v; expected %d", r.name, doc, a.Rule, a.Max, r.e, ex.value)
			}
			if uint64(r.g) != ex.value {
				return "wrong_value", fmt.Sprintf("%s(%s, rule=%d, MaxObjectKeys=%d) = %d; expected %d", r.name, doc, a.Rule, a.Max, uint64(r.g), ex.value)
			}
		case 1:
			if r.e == nil {
				return "invalid_document_accepted", fmt.Sprintf("%s(%s, rule=%d, MaxObjectKeys=%d) = %d although: %s", r.name, doc, a.Rule, a.Max, uint64(r.g), ex.why)
			}
			if r.g != 0 {
				return "nonzero_result_with_error", fmt.Sprintf("%s(%s) = %d with %v", r.name, doc, uint64(r.g), r.e)
			}
			if !ex.anyErr && len(ex.allowed) > 0 {
				ok := false
				for s := range ex.allowed {
					if errors.Is(r.e, s) {
						ok = true
					}
				}
				if !ok {
					var names []string
					for s := range ex.allowed {
						names = append(names, s.Error())
					}
					return "undocumented_error_class", fmt.Sprintf("%s(%s, rule=%d, MaxObjectKeys=%d): %v; documented for this document: %v (%s)", r.name, doc, a.Rule, a.Max, r.e, names, ex.why)
				}
			}
		default:
			if r.e == nil && (!ex.valueOK || uint64(r.g) != ex.value) {
				return "wrong_value_in_dontcare_zone", fmt.Sprintf("%s(%s, rule=%d) = %d (%s)", r.name, doc, a.Rule, uint64(r.g), ex.why)
			}
		}
	}
	return "", ""
}

// the same document twice, configuration changed in between
type cfgArg struct {
	Doc    mc.Bin `json:"doc"`
	First  [3]int `json:"first_config"` // rule, MaxObjectKeys, MaxInputLength
	Second [3]int `json:"second_config"`
}

func probeCfgChange(a cfgArg) (string, string) {
	defer reset()
	l1 := a.First[2]
	setup(arg{Rule: a.First[0], Max: a.First[1], MaxLen: &l1})
	_, _ = size.DefaultParser([]byte(a.Doc), size.Rule(a.First[0]))
	l2 := a.Second[2]
	setup(arg{Rule: a.Second[0], Max: a.Second[1], MaxLen: &l2})
	if k, d := probe(arg{Doc: a.Doc, Rule: a.Second[0], Max: a.Second[1], MaxLen: &l2}); k != "" {
		return "after_configuration_change:" + k, fmt.Sprintf("after parsing the same document under rule=%d MaxObjectKeys=%d MaxInputLength=%d: %s", a.First[0], a.First[1], a.First[2], d)
	}
	return "", ""
}

// ---------------------------------------------------------------- generators
func reg(doc string, a docAST) string {
	registry[doc] = a
	return doc
}

func scalarDocs() []string {
	var out []string
	for _, n := range []string{"0", "1", "12", "1024", "18446744073709551615", "18446744073709551616", "-1", "-0", "1.0", "1.5", "1e2", "1E2", "0.0", "100000000000000000000", "1e400", "-1e2", "5"} {
		out = append(out, reg(n, docAST{kind: 1, text: n}))
	}
	strs := map[string]string{`"1KiB"`: "1KiB", `"1 024 KiB"`: "1 024 KiB", `"12"`: "12", `"1kB"`: "1kB", `"1 kB"`: "1 kB", "\"1 MB\"": "1 MB", `"0ZB"`: "0ZB", `"1ZB"`: "1ZB", `"16EiB"`: "16EiB", `"1 XB"`: "1 XB",
		`""`: "", `" 7 "`: " 7 ", `"1_000"`: "1_000", `"-1"`: "-1", `"1.5"`: "1.5", `"kB"`: "kB", `"1B  "`: "1B  ", `"{}"`: "{}", `"1\n"`: "1\n", `"\"1\""`: `"1"`}
	for d, c := range strs {
		out = append(out, reg(d, docAST{kind: 2, text: c}))
	}
	for _, o := range []string{"true", "false", "null", "[]", "[1]", `["1KiB"]`, `[{"value":1,"unit":"B"}]`} {
		out = append(out, reg(o, docAST{kind: 3}))
	}
	return out
}

func main() {
	mc.Main("C12", "JSON documents generated from an AST: every member sequence up to the stated length over a 47-member alphabet (all permutations, duplicates, type confusions, nestings, counts around the limit), whitespace variants, every proper prefix and 14 suffixes of a document subset; x all 16 rule subsets x MaxObjectKeys in {0,1,2,3,16} x 3 entry points; "+
		"non-trivial = object document with both a value and a unit member", func(r *mc.Run) {
		firstuse.Phase(r, map[string][]string{"size": {"json", "parse"}})
		r.Reset = reset
		reset()
		p := mc.NewProbe(r, "document", setup, probe)
		r.Assume("expected outcome is computed order-free from the AST (member multiset): missing/duplicated/wrongly typed/too many (count > max, 0 = unlimited)/unexpected key => the set of applicable documented sentinels (any of them is accepted); otherwise math/big arithmetic")
		r.Assume("don't-care zones: integral numbers not written as plain digits (1.0, 1e2, -0); RuleDisableUnit combined with the JSON string/object forms; non-ASCII case folding of keys is outside the alphabet")
		r.Assume("mutated texts (prefixes/suffixes): json.Valid false => must be rejected; true => same expectation as the document when only whitespace was added, number expectation for a bare number, otherwise don't care")
		scalars := scalarDocs()
		// object documents
		type od struct {
			doc string
			n   int
		}
		var docs []string
		full := 3 // materialised set: all sequences up to length 3 (both tiers); length 4 over the full alphabet is streamed in the thorough tier
		var gen func(cur []int, alpha []int, depth int)
		emit := func(cur []int) {
			ms := make([]member, len(cur))
			for i, k := range cur {
				ms[i] = alphabet[k]
			}
			d := objDoc(ms, 0)
			if len(d) > 128 {
				return
			}
			docs = append(docs, reg(d, docAST{kind: 0, members: ms}))
		}
		gen = func(cur []int, alpha []int, depth int) {
			emit(cur)
			if len(cur) == depth {
				return
			}
			for _, k := range alpha {
				gen(append(cur, k), alpha, depth)
			}
		}
		all := make([]int, len(alphabet))
		for i := range all {
			all[i] = i
		}
		gen(nil, all, full)
		{
			// length 4 over the reduced alphabet (length <=3 of it is already present; duplicates are harmless, the registry dedups)
			var gen4 func(cur []int)
			gen4 = func(cur []int) {
				if len(cur) == 4 {
					emit(cur)
					return
				}
				for _, k := range reduced {
					gen4(append(cur, k))
				}
			}
			gen4(nil)
		}
		// 17-18 members around the largest limit
		for _, n := range []int{15, 16, 17, 18} {
			for _, tail := range [][]int{{0, 1}, {1, 0}} {
				var cur []int
				cur = append(cur, tail...)
				for len(cur) < n {
					cur = append(cur, 2)
				}
				ms := make([]member, 0, n)
				for _, k := range cur {
					m := alphabet[k]
					if k == 2 {
						m = mx("x", "1")
					}
					ms = append(ms, m)
				}
				// value,unit first; and value,unit last
				d1 := objDoc(ms, 0)
				rev := append([]member{}, ms[2:]...)
				rev = append(rev, ms[0], ms[1])
				d2 := objDoc(rev, 0)
				if len(d1) <= 128 {
					docs = append(docs, reg(d1, docAST{kind: 0, members: ms}))
					docs = append(docs, reg(d2, docAST{kind: 0, members: rev}))
				}
			}
		}
		// unknown members nested 1..55 levels deep (arrays, objects, mixed), before / between / after value and unit
		for depth := 1; depth <= 55; depth++ {
			arr := strings.Repeat("[", depth) + strings.Repeat("]", depth)
			obj := strings.Repeat(`{"a":`, depth) + "0" + strings.Repeat("}", depth)
			mix := ""
			for k := 0; k < depth; k++ {
				if k%2 == 0 {
					mix += "["
				} else {
					mix += `{"a":`
				}
			}
			mix += "1"
			for k := depth - 1; k >= 0; k-- {
				if k%2 == 0 {
					mix += "]"
				} else {
					mix += "}"
				}
			}
			for _, nv := range []string{arr, obj, mix} {
				for pos := 0; pos < 3; pos++ {
					ms := []member{mv("value", "2", vGoodNum, 2), mu("unit", `"KiB"`, vString, "KiB")}
					x := mx("x", nv)
					ms = append(ms[:pos], append([]member{x}, ms[pos:]...)...)
					if d := objDoc(ms, 0); len(d) <= 128 {
						docs = append(docs, reg(d, docAST{kind: 0, members: ms}))
					}
				}
			}
		}
		// whitespace variants of a subset
		var wsDocs []string
		for i := 0; i < len(docs) && i < 3000; i += 7 {
			a := registry[docs[i]]
			for ws := 1; ws <= 2; ws++ {
				d := objDoc(a.members, ws)
				if len(d) <= 128 {
					wsDocs = append(wsDocs, reg(d, a))
				}
			}
		}
		docs = append(docs, wsDocs...)
		docs = append(docs, scalars...)
		// dedup
		seen := map[string]bool{}
		uniq := docs[:0]
		for _, d := range docs {
			if !seen[d] {
				seen[d] = true
				uniq = append(uniq, d)
			}
		}
		docs = uniq
		r.Extra["documents"] = len(docs)
		// mutated texts
		var muts []string
		sub := []string{`{"value":1,"unit":"B"}`, `{"unit":"KiB","value":1024}`, `{"x":[1,[2,[3,[4]]]],"value":1,"unit":"B"}`, `{"value":1,"unit":"B","x":{"value":5,"unit":"MB"}}`, `{"value":1,"x":1,"unit":"B"}`, `{}`, `{"value":1}`,
			`12`, `1024`, `1.5`, `1e2`, `"1KiB"`, `"12"`, `null`, `[1]`, ` { "value" : 1 , "unit" : "B" } `, `{"x":"}","value":1,"unit":"B"}`, `{"value":18446744073709551615,"unit":""}`, `{"Value":16,"Unit":"EiB"}`}
		step := 37
		if !r.Quick() {
			step = 11
		}
		for i := 0; i < len(docs); i += step {
			sub = append(sub, docs[i])
		}
		sufs := []string{" ", "\n", " x", "x", "}", "]", ",", " 1", "1", "{}", `""`, "//c", "\x00", `,"unit":"B"}`}
		mseen := map[string]bool{}
		for _, d := range sub {
			for i := 0; i < len(d); i++ {
				if !mseen[d[:i]] && !seen[d[:i]] {
					mseen[d[:i]] = true
					muts = append(muts, d[:i])
				}
			}
			for _, s := range sufs {
				m := d + s
				if !mseen[m] && !seen[m] && len(m) <= 128 {
					mseen[m] = true
					muts = append(muts, m)
				}
			}
			// wrong closer
			if strings.HasSuffix(d, "}") {
				m := d[:len(d)-1] + "]"
				if !mseen[m] {
					mseen[m] = true
					muts = append(muts, m)
				}
			}
		}
		// 1-deviation mutants (all 256 byte values substituted/inserted, deletions) and multi-byte space prefixes/suffixes of small documents
		for _, d := range []string{`12`, `0`, `"1KiB"`, `{"value":1,"unit":"B"}`, `{"x":[1],"value":2,"unit":"kB"}`, ` 7 `} {
			add := func(m string) {
				if !mseen[m] && !seen[m] && len(m) <= 128 {
					mseen[m] = true
					muts = append(muts, m)
				}
			}
			mc.Mutations1([]byte(d), mc.AllBytes, func(m []byte) { add(string(m)) })
			mc.MutationsTok([]byte(d), []string{"\ufeff", "\u00a0", "\u2028", "\u0085", "\uff11", "\u212a"}, func(m []byte) { add(string(m)) })
			for _, sp := range []string{"\u00a0", "\u0085", "\u2028", "\u2003", "\ufeff", "\u3000", "\v", "\f", "\x1c", "\x00", "\r\n", "\t\t"} {
				add(sp + d)
				add(d + sp)
				add(sp + d + sp)
			}
		}
		// numeric sweep: the same numbers as bare number, as object value and inside a string
		var bigs []string
		for n := 1; n <= 99; n++ {
			bigs = append(bigs, fmt.Sprintf("%d000000000000000000", n))
		}
		for _, x := range []string{"18446744073709551614", "18446744073709551615", "18446744073709551616", "18446744073709551625", "27670116110564327424", "36893488147419103232", "99999999999999999999", "100000000000000000000",
			"184467440737095516150", "1844674407370955161", "9223372036854775807", "9223372036854775808", "00", "01", "0000000000000000000001", "1e19", "1E19", "1e20", "1.8446744073709551615e19", "12345678901234567890123"} {
			bigs = append(bigs, x)
		}
		for _, n := range bigs {
			for _, d := range []string{n, `{"value":` + n + `,"unit":"B"}`, `{"unit":"","value":` + n + `}`, `"` + n + `"`, `"` + n + `B"`} {
				if !mseen[d] && !seen[d] {
					mseen[d] = true
					muts = append(muts, d)
				}
			}
		}
		r.Extra["mutated_texts"] = len(muts)
		r.Phase("oracle self-check: the AST each document was generated from equals the AST re-derived from its text by a token walk", "all generated documents", func() {
			r.Serial(func(w *mc.W) {
				for _, d := range docs {
					if a := registry[d]; !sameAST(a, walk(d)) {
						r.Infra("oracle self-check failed for %s: generated %+v, walked %+v", d, a, walk(d))
						return
					}
				}
				w.Outcome("self-check")
			})
		})
		maxes := []int{16, 0, 1, 2, 3}
		for _, max := range maxes {
			for rule := 0; rule < 16; rule++ {
				max, rule := max, rule
				r.Phase(fmt.Sprintf("rule=%d MaxObjectKeys=%d: %d generated documents + %d truncated/extended texts x 3 entry points", rule, max, len(docs), len(muts)), "complete over the generated set", func() {
					setup(arg{Rule: rule, Max: max})
					r.Parallel(int64(len(docs)+len(muts)), 512, func(w *mc.W, i int64) {
						var d string
						if int(i) < len(docs) {
							d = docs[i]
							if a := registry[d]; a.kind == 0 {
								hv, hu := false, false
								for _, m := range a.members {
									hv = hv || m.kcls == 0
									hu = hu || m.kcls == 1
								}
								if hv && hu {
									w.NonTrivial()
								}
							}
						} else {
							d = muts[int(i)-len(docs)]
						}
						w.Point()
						if i%64 == 0 {
							ex := expectDoc(d, rule, max)
							w.Outcome([]string{"accept", "reject", "dontcare"}[ex.cls])
						}
						p.Do(w, arg{Doc: mc.Bin(d), Rule: rule, Max: max})
					})
					reset()
				})
			}
		}
		if !r.Quick() {
			idx := make([]byte, len(alphabet))
			for i := range idx {
				idx[i] = byte(i)
			}
			for _, max := range maxes {
				for rule := 4; rule < 16; rule++ {
					if rule&4 == 0 {
						continue
					}
					max, rule := max, rule
					r.Phase(fmt.Sprintf("streamed: every member sequence of length 4 over the full %d-member alphabet, rule=%d MaxObjectKeys=%d", len(alphabet), rule, max), "complete (documents longer than MaxInputLength skipped)", func() {
						setup(arg{Rule: rule, Max: max})
						r.Strings(idx, 4, 4, func(w *mc.W, ix []byte) {
							n := 0
							ms := make([]int, 4)
							for i, k := range ix {
								ms[i] = int(k)
								n += len(alphabet[k].key) + len(alphabet[k].val) + 2
							}
							if n+1 > 128 {
								return
							}
							w.Point()
							w.NonTrivial()
							p.Do(w, arg{Members: ms, Rule: rule, Max: max})
						})
						reset()
					})
				}
			}
		}
		r.Phase("serial: all histories of two calls over 22 documents x rules {6,14,2,4} (the second call is judged; the caller reuses one buffer)", "complete for depth 2 over the listed documents", func() {
			hd := []string{`{"value":1,"unit":"B"}`, `{"value":2,"unit":"B"}`, `{"unit":"B","value":1}`, `{"value":1,"unit":"KiB"}`, `{"value":1,"unit":"B","x":1}`, `{"x":1,"value":1,"unit":"B"}`, `{"value":1}`, `{"unit":"B"}`,
				`{"value":1,"value":1,"unit":"B"}`, `{}`, `12`, `13`, `"1KiB"`, `"2KiB"`, `null`, `0`, `{"value":0,"unit":"ZB"}`, `{"value":1,"unit":"ZB"}`, `1.5`, `"x"`, ``, `{"value":1,"unit":"B"`}
			for _, rule := range []int{6, 14, 2, 4} {
				setup(arg{Rule: rule, Max: 16})
				r.Serial(func(w *mc.W) {
					for _, x := range hd {
						for _, y := range hd {
							for via := 0; via < 3; via++ {
								w.Point()
								px := mc.Bin(x)
								p.Do(w, arg{Doc: mc.Bin(y), Rule: rule, Max: 16, Prev: &px, Via: via})
							}
						}
					}
				})
			}
			reset()
		})
		for _, ml := range []int{0, 50, 1000} {
			ml := ml
			r.Phase(fmt.Sprintf("MaxInputLength=%d, MaxObjectKeys=0: objects with 0..60 unknown members before/after value and unit, long numbers and strings", ml), "complete grid", func() {
				setup(arg{Rule: 6, Max: 0, MaxLen: &ml})
				r.Parallel(61, 1, func(w *mc.W, k int64) {
					pad := strings.Repeat(`"x":[1],`, int(k))
					for _, d := range []string{`{` + pad + `"value":1,"unit":"KiB"}`, `{"value":1,` + pad + `"unit":"KiB"}`, `{"unit":"KiB","value":2` + strings.Repeat(`,"y":{"a":null}`, int(k)) + `}`,
						strings.Repeat("0", 0) + "1" + strings.Repeat("0", int(k)%20), `"` + strings.Repeat(" ", int(k)*3) + `7 B"`, strings.Repeat(" ", int(k)*5) + `{"value":3,"unit":"B"}`} {
						w.Point()
						p.Do(w, arg{Doc: mc.Bin(d), Rule: 6, Max: 0, MaxLen: &ml})
					}
				})
				reset()
			})
		}
		// far-away trailing data and white space: "exactly one well-formed JSON value" must hold however much white space
		// separates the value from what follows (decoders read in blocks of 512 / 4096 bytes), limit disabled or raised
		for _, ml := range []int{0, 20000} {
			ml := ml
			r.Phase(fmt.Sprintf("MaxInputLength=%d: a valid value, N white-space bytes (N around 0, 512, 1024, 4096, 8192), then nothing / a second value / garbage; rules 6, 2, 4", ml), "complete grid", func() {
				var ns []int
				for _, c := range []int{0, 512, 1024, 4096, 8192} {
					for d := -26; d <= 3; d++ {
						if c+d >= 0 {
							ns = append(ns, c+d)
						}
					}
				}
				for _, rule := range []int{6, 2, 4} {
					rule := rule
					setup(arg{Rule: rule, Max: 16, MaxLen: &ml})
					r.Parallel(int64(len(ns)), 1, func(w *mc.W, k int64) {
						for _, ws := range []string{" ", "\n", "\t \r\n"} {
							pad := strings.Repeat(ws, ns[k]/len(ws)+1)[:ns[k]]
							for _, base := range []string{`10`, `"10 KiB"`, `{"value":1,"unit":"KiB"}`, `{"value":1,"unit":"KiB","x":[1,2,{"y":null}]}`} {
								for _, tail := range []string{"", "x", "1", "{}", ",", "]", "}", `""`, "\x00", "null"} {
									w.Point()
									p.Do(w, arg{Doc: mc.Bin(base + pad + tail), Rule: rule, Max: 16, MaxLen: &ml})
								}
							}
						}
					})
				}
				reset()
			})
		}
		// string escapes: JSON's own (\" \\ \/ \b \f \n \r \t \uXXXX) must be decoded, everything else (Go / C literal syntax) is not JSON
		r.Phase("string form and string members written with every kind of escape: valid JSON escapes decode to the text grammar, Go-only escapes (\\x31, \\061, \\U00000031, \\a, \\v, single quotes, back quotes) are malformed", "complete for the listed documents", func() {
			esc := []string{`"\u0031\u0030"`, `"1\u0020KiB"`, `"\u0031 \u004bi\u0042"`, `"1\/"`, `"1\tB"`, `"1\nKiB"`, `"\"1\""`, `"1 k\u0042"`, `"\ud83d\ude00"`, `"\u00a01\u00a0B"`,
				`"\x31\x30"`, `"1\x20KiB"`, `"\061"`, `"\U00000031"`, `"\a1"`, `"1\v"`, `"\'1\'"`, `'10'`, "`10`", `"1\0"`, `"\u003"`, `"\uD83D"`, `"1\`, `"\u12G4"`, `"1\e"`, `"\x"`, `"\101"`}
			r.Serial(func(w *mc.W) {
				for _, rule := range []int{6, 2, 4, 14} {
					setup(arg{Rule: rule, Max: 16})
					for _, e := range esc {
						for _, d := range []string{e, `{"value":1,"unit":` + e + `}`, `{"value":` + e + `,"unit":"B"}`, `{"value":1,"unit":"B","x":` + e + `}`, `{` + e + `:1,"value":1,"unit":"B"}`} {
							w.Point()
							p.Do(w, arg{Doc: mc.Bin(d), Rule: rule, Max: 16})
						}
					}
				}
			})
			reset()
		})
		pcfg := mc.NewProbe(r, "configuration_change", nil, probeCfgChange)
		r.Phase("serial: the same document parsed twice with the configuration changed in between (MaxObjectKeys, rule, MaxInputLength): the second call is judged under the second configuration", "complete for depth 2 over the listed documents and configurations", func() {
			cd := []string{`{"value":1,"unit":"B"}`, `{"x":1,"value":1,"unit":"B"}`, `{"x":1,"y":2,"value":1,"unit":"KiB"}`, `12`, `"1KiB"`, `{"value":1}`, `{"value":1,"unit":"B","z":[1,2]}`}
			cfgs := [][3]int{{6, 16, 128}, {6, 0, 128}, {6, 1, 128}, {6, 2, 128}, {6, 3, 128}, {14, 16, 128}, {2, 16, 128}, {4, 16, 128}, {0, 16, 128}, {6, 16, 10}, {6, 16, 0}, {6, 16, 25}}
			r.Serial(func(w *mc.W) {
				for _, d := range cd {
					for _, c1 := range cfgs {
						for _, c2 := range cfgs {
							w.Point()
							pcfg.Do(w, cfgArg{mc.Bin(d), c1, c2})
						}
					}
				}
			})
			reset()
		})
		r.Sample("document", arg{Doc: `{"x":1,"value":1,"unit":"B"}`, Rule: 6, Max: 2})
		r.Sample("truncated", arg{Doc: `{"value":1,"unit":"B"`, Rule: 6, Max: 16})
		r.Sample("trailing", arg{Doc: `5 x`, Rule: 2, Max: 16})
	})
}
