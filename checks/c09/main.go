// C09: the date parser accepts only real calendar dates and keeps their components.
package main

import (
	"errors"
	"fmt"
	"time"
	_ "time/tzdata" // embedded zone database: the process's local zone is a configuration the code could observe

	"go.lstv.dev/util/date"
	"verif/firstuse"
	"verif/libdefaults"
	"verif/mc"
	"verif/oracle"
)

type arg struct {
	In     mc.Bin `json:"in"`
	Rule   int    `json:"rule"`
	MaxLen int    `json:"max_input_length"`
	Path   int    `json:"path"`                 // 0 DefaultParser[string], 1 DefaultParser[[]byte], 2 UnmarshalText (rule 0 only)
	Zone   string `json:"time_local,omitempty"` // the process's local zone during the call ("" = unchanged)
}

var defaultLocal = time.Local

func reset() {
	time.Local = defaultLocal
	libdefaults.Date()
}
func setup(a arg) {
	date.MaxInputLength = a.MaxLen
	if a.MaxLen == -1 { // default configuration: whatever the library starts with (the oracle assumes the documented 10)
		date.MaxInputLength = libdefaults.DateMaxInputLength
	}
	time.Local = defaultLocal
	if a.Zone != "" {
		if loc, err := time.LoadLocation(a.Zone); err == nil {
			time.Local = loc
		}
	}
}

// expectation classes
const (
	expAccept = iota
	expRejectBasicDisabled
	expReject
)

func expect(in []byte, rule, maxLen int) (cls int, y int64, m, d int) {
	if maxLen == -1 { // the limit in force in the default configuration ("within the length limit": the statement does not fix its value)
		maxLen = libdefaults.DateMaxInputLength
	}
	if len(in) == 0 {
		return expReject, 0, 0, 0
	}
	if maxLen != 0 && len(in) > maxLen {
		return expReject, 0, 0, 0
	}
	y, m, d, basic, ok := oracle.ParseDateText(in)
	if !ok || !oracle.RealDate(y, m, d) {
		return expReject, 0, 0, 0
	}
	if basic && rule&int(date.RuleDisableBasic) != 0 {
		return expRejectBasicDisabled, 0, 0, 0
	}
	return expAccept, y, m, d
}

func isTyped(err error, in []byte, bytesInput bool) bool {
	// a typed parse error: *date.ParseError instantiated with the input's type; for the empty input the pinned tree itself
	// answers DefaultParser[string]("") with a ParseError[[]byte], so either instantiation is accepted there
	var ps *date.ParseError[string]
	var pb *date.ParseError[[]byte]
	if len(in) == 0 {
		return errors.As(err, &ps) || errors.As(err, &pb)
	}
	if !bytesInput {
		return errors.As(err, &ps)
	}
	return errors.As(err, &pb)
}

// judge compares one parser result with the reference expectation for (in, rule, maxLen).
func judge(in []byte, rule, maxLen int, bytesInput bool, got date.Date, err error) (string, string) {
	cls, y, m, d := expect(in, rule, maxLen)
	switch cls {
	case expAccept:
		if err != nil && rule&^int(date.RuleDisableBasic) != 0 {
			// a rule value with bits the pinned library does not define: such a bit may belong to an option that rejects more
			// (the statement knows one rule); what the defined bit forbids stays forbidden, and an accepted text must still
			// have the written components
			if got != (date.Date{}) {
				return "nonzero_result_with_error", fmt.Sprintf("%q: result %v with error %v", in, got, err)
			}
			return "", ""
		}
		if err != nil {
			return "valid_date_rejected", fmt.Sprintf("%q rejected: %v", in, err)
		}
		if gy, gm, gd := got.Date(); int64(gy) != y || int(gm) != m || gd != d {
			return "wrong_components", fmt.Sprintf("%q parsed as %d-%d-%d, written %d-%d-%d", in, gy, gm, gd, y, m, d)
		}
	default:
		if err == nil {
			return "non_date_accepted", fmt.Sprintf("%q accepted as %s; it is not an existing day / not in the accepted language (rule=%d limit=%d)", in, got, rule, maxLen)
		}
		if got != (date.Date{}) {
			return "nonzero_result_with_error", fmt.Sprintf("%q: result %v with error %v", in, got, err)
		}
		if !isTyped(err, in, bytesInput) {
			return "untyped_error", fmt.Sprintf("%q: error %T %v is not a *date.ParseError of the input's type", in, err, err)
		}
		if cls == expRejectBasicDisabled && !errors.Is(err, date.ErrBasicFormatDisabled) {
			return "basic_disabled_wrong_error", fmt.Sprintf("%q with RuleDisableBasic: %v is not ErrBasicFormatDisabled", in, err)
		}
	}
	return "", ""
}

func probe(a arg) (string, string) {
	in := []byte(a.In)
	var got date.Date
	var err error
	switch a.Path {
	case 0:
		got, err = date.DefaultParser(string(in), date.Rule(a.Rule))
	case 1:
		cp := append([]byte(nil), in...)
		got, err = date.DefaultParser(cp, date.Rule(a.Rule))
	case 2:
		err = got.UnmarshalText(append([]byte(nil), in...))
	case 3: // named string type
		type namedS string
		got, err = date.DefaultParser(namedS(in), date.Rule(a.Rule))
		if err != nil {
			err = fmt.Errorf("%w", errors.Join(err, &date.ParseError[string]{})) // the instantiation of the error type is not judged for named types
		}
	case 4: // named []byte type
		type namedB []byte
		got, err = date.DefaultParser(namedB(append([]byte(nil), in...)), date.Rule(a.Rule))
		if err != nil {
			err = fmt.Errorf("%w", errors.Join(err, &date.ParseError[[]byte]{}))
		}
	}
	return judge(in, a.Rule, a.MaxLen, a.Path != 0 && a.Path != 3, got, err)
}

// histories of depth 2: a call must behave the same whatever call preceded it (also when the caller reuses one buffer)
type histArg struct {
	First  arg `json:"first"` // First.Path selects the single previous call: 0 DefaultParser[string], 1 DefaultParser[[]byte] on the shared buffer, 2 UnmarshalText on the shared buffer
	Second arg `json:"second"`
}

func setupHist(h histArg) { date.MaxInputLength = h.Second.MaxLen }

func probeHist(h histArg) (string, string) {
	buf := make([]byte, 0, 64)
	buf = append(buf, h.First.In...)
	switch h.First.Path { // exactly one previous call, so that no other call disturbs whatever state it may leave behind
	case 0:
		_, _ = date.DefaultParser(string(h.First.In), date.Rule(h.First.Rule))
	case 1:
		_, _ = date.DefaultParser(buf, date.Rule(h.First.Rule))
	default:
		var d date.Date
		_ = d.UnmarshalText(buf)
	}
	buf = append(buf[:0], h.Second.In...) // the same backing array, overwritten in place
	got, err := date.DefaultParser(buf, date.Rule(h.Second.Rule))
	if k, d := judge([]byte(h.Second.In), h.Second.Rule, h.Second.MaxLen, true, got, err); k != "" {
		return "after_previous_call:" + k, fmt.Sprintf("after DefaultParser(%q, rule=%d) on the same buffer: %s", h.First.In, h.First.Rule, d)
	}
	got, err = date.DefaultParser(string(h.Second.In), date.Rule(h.Second.Rule))
	if k, d := judge([]byte(h.Second.In), h.Second.Rule, h.Second.MaxLen, false, got, err); k != "" {
		return "after_previous_call:" + k, fmt.Sprintf("after DefaultParser(%q, rule=%d): %s", h.First.In, h.First.Rule, d)
	}
	var u date.Date
	err = u.UnmarshalText([]byte(h.Second.In))
	if err != nil {
		u = date.Date{}
	}
	if h.Second.Rule == 0 {
		if k, d := judge([]byte(h.Second.In), 0, h.Second.MaxLen, true, u, err); k != "" {
			return "after_previous_call:" + k, fmt.Sprintf("UnmarshalText after DefaultParser(%q, rule=%d): %s", h.First.In, h.First.Rule, d)
		}
	}
	return "", ""
}

var classNames = [...]string{"accept", "reject_basic_disabled", "reject"}

func main() {
	mc.Main("C09", "strings are enumerated completely over the stated alphabets/grids; a point is (text, rule, MaxInputLength, entry point); "+
		"non-trivial = the reference recogniser finds the YYYY[-]MM[-]DD shape (whether or not the day exists)", func(r *mc.Run) {
		firstuse.Phase(r, map[string][]string{"date": {"parse"}})
		r.Reset = reset
		reset()
		p := mc.NewProbe(r, "parse", setup, probe)
		ph := mc.NewProbe(r, "history2", setupHist, probeHist)
		r.Phase("serial: all histories of two parser calls over 26 texts x 2 rules (the second call is judged; the caller reuses one buffer)", "complete for depth 2 over the listed texts", func() {
			texts := []string{"2024-02-29", "20240229", "2023-02-29", "20230229", "2024-02-30", "0001-01-01", "00010101", "9999-12-31", "2024-13-01", "2024-02-2x", "", "2024", "2024-0229", "202402-29",
				"2024-02-28", "20240228", "1999-12-31", "19991231", "2000-02-29", "1900-02-29", "2024-02-29x", "x", "12345-01-01", "2024-2-29", "20240431", "2024-04-31"}
			setup(arg{MaxLen: 10})
			r.Serial(func(w *mc.W) {
				for _, a := range texts {
					for ra := 0; ra < 2; ra++ {
						for _, b := range texts {
							for rb := 0; rb < 2; rb++ {
								for via := 0; via < 3; via++ {
									w.Point()
									w.NonTrivial()
									ph.Do(w, histArg{arg{In: mc.Bin(a), Rule: ra, MaxLen: 10, Path: via}, arg{In: mc.Bin(b), Rule: rb, MaxLen: 10}})
								}
							}
						}
					}
				}
			})
			reset()
		})
		r.Assume("reference: hand-written recogniser (4-9 year digits, separators both or none) + Gregorian month-length table; no regexp, no package time")
		r.Assume("inputs over MaxInputLength: only 'error, zero result, typed error' is required here (the error class is C18's)")
		r.Assume("invalid basic-shaped text under RuleDisableBasic: either ErrBasicFormatDisabled or the generic error is accepted (statement is silent)")

		zone := "" // time.Local of the current phase
		one := func(w *mc.W, s []byte, rule, ml int, paths int) {
			cls, _, _, _ := expect(s, rule, ml)
			w.Point()
			w.Outcome(classNames[cls])
			if _, _, _, _, ok := oracle.ParseDateText(s); ok {
				w.NonTrivial()
			}
			np := paths
			if paths == 3 && ml == -1 && zone == "" {
				np = 5 // + the two named-type instantiations (default limit, default zone only)
			}
			for path := 0; path < np; path++ {
				if path == 2 && rule != 0 {
					continue
				}
				p.Do(w, arg{In: mc.Bin(s), Rule: rule, MaxLen: ml, Path: path, Zone: zone})
			}
		}
		r.Phase("rule values with bits beyond RuleDisableBasic (2, 3, 6, 7, -1, 1<<20|1): what RuleDisableBasic forbids stays forbidden, nothing invalid becomes valid, accepted texts have the written components (rejections under undefined bits are not judged); valid and near-valid texts x 5 entry points", "complete grid", func() {
			texts := []string{"20200229", "20210229", "2020-02-29", "2021-02-29", "00010101", "0001-01-01", "99991231", "2020-0229", "202002-29", "", "2020-02-30", "20200230"}
			setup(arg{MaxLen: 10})
			r.Serial(func(w *mc.W) {
				for _, t := range texts {
					for _, rule := range []int{2, 3, 6, 7, -1, -2, 1<<20 | 1, 1 << 20} {
						one(w, []byte(t), rule, 10, 3)
					}
				}
			})
			reset()
		})
		limits := []int{-1, 0, 8, 15} // -1: the library's own default (documented 10)
		// every small limit: all valid and near-valid texts of length 6..12 under MaxInputLength 1..12
		r.Phase("every MaxInputLength 1..12 x valid and near-valid texts of length 6..12 x 2 rules x 3 entry points", "complete grid", func() {
			texts := []string{"20200229", "20210229", "2020-02-29", "2020-2-29", "202002290", "020200229", "2020229", "12345-01-01", "123450101", "1234-01-01", "12340101", "123-01-01", "1230101", "2020-02-3", "100000101", "10000-01-01", "999999999-12-31", "9999999991231"}
			for ml := 1; ml <= 12; ml++ {
				setup(arg{MaxLen: ml})
				r.Serial(func(w *mc.W) {
					for _, t := range texts {
						for rule := 0; rule < 2; rule++ {
							one(w, []byte(t), rule, ml, 3)
						}
					}
				})
			}
			reset()
		})
		// the process's local time zone must not matter: zones without a local midnight on some days (Apia 2011-12-30, Kiritimati 1994-12-31,
		// Kwajalein 1993-08-21, Sao Paulo DST starts) and ordinary ones
		for _, z := range []string{"Pacific/Apia", "America/Sao_Paulo", "Pacific/Kiritimati", "Pacific/Kwajalein", "Europe/Prague", "America/New_York", "Asia/Kolkata"} {
			z := z
			r.Phase(fmt.Sprintf("time.Local = %s: every day of 1880-2040 in extended and basic form x 3 entry points", z), "complete for the listed years", func() {
				if _, err := time.LoadLocation(z); err != nil {
					r.Infra("cannot load zone %s: %v", z, err)
					return
				}
				zone = z
				defer func() { zone = "" }()
				setup(arg{MaxLen: 10, Zone: z})
				r.Parallel(161, 1, func(w *mc.W, i int64) {
					y := 1880 + i
					for m := 1; m <= 12; m++ {
						for d := 1; d <= 31; d++ {
							for _, basic := range []bool{false, true} {
								one(w, []byte(oracle.DateText(y, m, d, basic)), 0, 10, 3)
							}
						}
					}
				})
				reset()
			})
		}
		// (a) year x MM x DD x separator layout grid
		years := []string{"0000", "0001", "0004", "0100", "0400", "1582", "1600", "1700", "1800", "1899", "1900", "1999", "2000", "2001", "2004", "2019", "2020", "2021",
			"2022", "2023", "2024", "2100", "2400", "9996", "9999", "10000", "10004", "10100", "10400", "12345", "20000", "99999", "100000", "100004", "123456", "999999",
			"1000000", "1000100", "1000400", "9999999", "10000000", "10000004", "99999999", "100000000", "100000100", "100000400", "400000000", "999999996", "999999999",
			"000", "00000", "1234567890", "0999", "02024", "002024", "2O24", "202", "000000000", "0000000000", "99999999999", "1900", "2200", "2300", "3000"}
		for _, ml := range limits {
			ml := ml
			r.Phase(fmt.Sprintf("grid %d years x MM 00-99 x DD 00-99 x 4 separator layouts x 2 rules x 3 entry points, MaxInputLength=%d", len(years), ml), "complete grid", func() {
				setup(arg{MaxLen: ml})
				r.Parallel(int64(len(years))*100, 4, func(w *mc.W, i int64) {
					ys := years[i/100]
					mm := int(i % 100)
					buf := make([]byte, 0, 20)
					for dd := 0; dd < 100; dd++ {
						for lay := 0; lay < 4; lay++ {
							buf = append(buf[:0], ys...)
							if lay&1 != 0 {
								buf = append(buf, '-')
							}
							buf = append(buf, byte('0'+mm/10), byte('0'+mm%10))
							if lay&2 != 0 {
								buf = append(buf, '-')
							}
							buf = append(buf, byte('0'+dd/10), byte('0'+dd%10))
							for rule := 0; rule < 2; rule++ {
								one(w, buf, rule, ml, 3)
							}
						}
					}
				})
			})
		}
		r.Sample("grid", arg{In: "2023-02-29", Rule: 0, MaxLen: 10, Path: 0})
		r.Sample("grid", arg{In: "20240229", Rule: 1, MaxLen: 10, Path: 1})
		// (b) all strings over a 6-symbol alphabet
		maxL := 9
		if !r.Quick() {
			maxL = 10
		}
		for _, ml := range []int{10, 0} {
			ml := ml
			L := maxL
			if ml == 0 && r.Quick() {
				L = 8
			}
			r.Phase(fmt.Sprintf("all strings over {0,1,2,3,9,-} of length 0..%d x 2 rules x {string,[]byte}, MaxInputLength=%d", L, ml), "complete", func() {
				setup(arg{MaxLen: ml})
				r.Strings([]byte("0123-9"), 0, L, func(w *mc.W, s []byte) {
					one(w, s, 0, ml, 2)
					one(w, s, 1, ml, 2)
				})
			})
		}
		// (c) 1-deviation mutants of valid texts, all 256 byte values
		valid := []string{"2022-02-28", "20220228", "2024-02-29", "20240229", "0000-01-01", "00000101", "9999-12-31", "99991231", "2000-10-31", "1999-11-30",
			"2021-01-31", "2021-03-31", "2021-04-30", "2021-05-31", "2021-06-30", "2021-07-31", "2021-08-31", "2021-09-30", "2021-12-01", "20211130",
			"10000-01-01", "100000101", "123456-07-08", "1234560708", "999999999-12-31", "9999999991231", "1234567-11-11", "12345671111", "1900-02-28", "2100-02-28",
			"2400-02-29", "0400-02-29", "0004-02-29", "0100-02-28", "1212-12-12", "12121212", "1010-10-10", "10101010", "2019-09-19", "20190919",
			"3001-01-30", "30010130", "2020-12-31", "20201231", "2002-08-07", "0001-01-01", "2012-02-02", "20120202", "1111-11-11", "11111111"}
		for _, ml := range limits {
			ml := ml
			r.Phase(fmt.Sprintf("special words (null, nil, true, NaN, {}, ...) and 1-deviation mutants (substitute/insert all 256 byte values, delete) of %d valid texts x 2 rules x 3 entry points, MaxInputLength=%d", len(valid), ml), "complete for 1 deviation", func() {
				setup(arg{MaxLen: ml})
				r.Parallel(int64(len(valid)), 1, func(w *mc.W, i int64) {
					base := []byte(valid[i])
					for rule := 0; rule < 2; rule++ {
						one(w, base, rule, ml, 3)
						if i == 0 {
							for _, sw := range mc.SpecialWords {
								one(w, []byte(sw), rule, ml, 3)
							}
						}
						mc.Mutations1(base, mc.AllBytes, func(m []byte) { one(w, m, rule, ml, 3) })
						mc.MutationsTok(base, mc.Lookalikes, func(m []byte) { one(w, m, rule, ml, 3) })
						one(w, append(append([]byte(nil), base...), '\n'), rule, ml, 3)
					}
				})
			})
		}
		r.Sample("mutant", arg{In: "2022-02-28\n", Rule: 0, MaxLen: 0, Path: 2})
		reset()
	})
}
