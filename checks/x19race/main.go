// Free-running supplement for C19 (not the deciding step): many goroutines draw IDs concurrently
// with the real sync.Mutex and the real generator under the Go race detector; duplicates are counted.
package main

import (
	"flag"
	"fmt"
	"os"
	"sync"
	"time"

	"go.lstv.dev/util/uu"
)

// longLived: g goroutines draw bursts of 200 IDs every millisecond until the duration has passed; only version, variant and
// duplicates inside a burst are checked (the run exists for the race detector).
func longLived(g int, d time.Duration) {
	start := time.Now()
	var wg sync.WaitGroup
	var bad, dups, total int64
	var mu sync.Mutex
	for i := 0; i < g; i++ {
		wg.Add(1)
		go func() {
			defer wg.Done()
			var b, du, t int64
			for time.Since(start) < d {
				seen := map[uu.ID]struct{}{}
				for k := 0; k < 200; k++ {
					id := uu.RandomID()
					t++
					if id.Version() != 4 || id.Variant() != 1 {
						b++
					}
					if _, ok := seen[id]; ok {
						du++
					}
					seen[id] = struct{}{}
				}
				time.Sleep(time.Millisecond)
			}
			mu.Lock()
			bad, dups, total = bad+b, dups+du, total+t
			mu.Unlock()
		}()
	}
	wg.Wait()
	fmt.Printf("race-supplement long-lived goroutines=%d duration=%v draws=%d duplicates=%d bad_version_or_variant=%d\n", g, d, total, dups, bad)
	if dups > 0 || bad > 0 {
		os.Exit(1)
	}
}

func main() {
	g := flag.Int("g", 64, "goroutines")
	n := flag.Int("n", 10000, "draws per goroutine")
	d := flag.Duration("d", 0, "if set: keep drawing (in bursts) for this long instead - a long-lived process, for state the library changes on a timer")
	flag.Parse()
	if *d > 0 {
		longLived(*g, *d)
		return
	}
	res := make([][]uu.ID, *g)
	var wg sync.WaitGroup
	for i := 0; i < *g; i++ {
		i := i
		wg.Add(1)
		go func() {
			defer wg.Done()
			ids := make([]uu.ID, *n)
			for k := range ids {
				ids[k] = uu.RandomID()
			}
			res[i] = ids
		}()
	}
	wg.Wait()
	seen := make(map[uu.ID]struct{}, *g**n)
	dups, bad := 0, 0
	for _, ids := range res {
		for _, id := range ids {
			if _, ok := seen[id]; ok {
				dups++
			}
			seen[id] = struct{}{}
			if id.Version() != 4 || id.Variant() != 1 {
				bad++
			}
		}
	}
	fmt.Printf("race-supplement goroutines=%d draws=%d duplicates=%d bad_version_or_variant=%d\n", *g, *g**n, dups, bad)
	if dups > 0 || bad > 0 {
		os.Exit(1)
	}
}
