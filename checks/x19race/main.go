// Free-running supplement for C19 (not the deciding step): many goroutines draw IDs concurrently
// with the real sync.Mutex and the real generator under the Go race detector; duplicates are counted.
package main

import (
	"flag"
	"fmt"
	"os"
	"sync"

	"go.lstv.dev/util/uu"
)

func main() {
	g := flag.Int("g", 64, "goroutines")
	n := flag.Int("n", 10000, "draws per goroutine")
	flag.Parse()
	res := make([][]uu.ID, *g)
	var wg sync.WaitGroup
	for i := 0; i < *g; i++ {
		i := i
		wg.Add(1)
		go func() {
			defer wg.Done()
			ids := make([]uu.ID, *n)
			for k := range ids {
				ids[k] = uu.RandomID()
			}
			res[i] = ids
		}()
	}
	wg.Wait()
	seen := make(map[uu.ID]struct{}, *g**n)
	dups, bad := 0, 0
	for _, ids := range res {
		for _, id := range ids {
			if _, ok := seen[id]; ok {
				dups++
			}
			seen[id] = struct{}{}
			if id.Version() != 4 || id.Variant() != 1 {
				bad++
			}
		}
	}
	fmt.Printf("race-supplement goroutines=%d draws=%d duplicates=%d bad_version_or_variant=%d\n", *g, *g**n, dups, bad)
	if dups > 0 || bad > 0 {
		os.Exit(1)
	}
}
