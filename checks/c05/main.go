// C05: UUID text form is exact, strict and round-trips.
package main

import (
	"errors"
	"fmt"
	"strings"

	"go.lstv.dev/util/uu"
	"verif/firstuse"
	"verif/libdefaults"
	"verif/mc"
	"verif/oracle"
)

func reset() {
	libdefaults.UU()
}

type idArg struct {
	Hi uint64 `json:"hi"`
	Lo uint64 `json:"lo"`
}

// typedFor: the parse error is typed by the kind of input that was passed
func typedFor(err error, bytesInput bool) bool {
	if bytesInput {
		var b *uu.ParseError[[]byte]
		return errors.As(err, &b)
	}
	var a *uu.ParseError[string]
	return errors.As(err, &a)
}

func probeID(a idArg) (string, string) {
	id := uu.ID{Higher: a.Hi, Lower: a.Lo}
	want := oracle.UUIDText(a.Hi, a.Lo)
	if b, err := uu.DefaultFormatter(nil, id, 0); err != nil || string(b) != want {
		return "format_plain", fmt.Sprintf("DefaultFormatter(%016x,%016x) = %q, %v; want %q", a.Hi, a.Lo, b, err, want)
	}
	if b, err := uu.DefaultFormatter(nil, id, uu.FormatURN); err != nil || string(b) != "urn:uuid:"+want {
		return "format_urn", fmt.Sprintf("DefaultFormatter(URN) = %q, %v", b, err)
	}
	for _, spare := range []int{1, 35, 36, 37, 44, 45, 46, 64, 100} { // the text must not depend on the destination buffer's spare capacity
		if b, err := uu.DefaultFormatter(make([]byte, 0, spare), id, 0); err != nil || string(b) != want {
			return "format_with_spare_capacity", fmt.Sprintf("DefaultFormatter(make([]byte,0,%d)) = %q, %v; want %q", spare, b, err, want)
		}
		if b, err := uu.DefaultFormatter(make([]byte, 0, spare), id, uu.FormatURN); err != nil || string(b) != "urn:uuid:"+want {
			return "format_with_spare_capacity", fmt.Sprintf("DefaultFormatter(make([]byte,0,%d), URN) = %q, %v", spare, b, err)
		}
	}
	if b, err := id.MarshalText(); err != nil || string(b) != want {
		return "marshaltext", fmt.Sprintf("MarshalText = %q, %v; want %q", b, err, want)
	}
	if s := fmt.Sprintf("%s|%u", id, id); s != want+"|urn:uuid:"+want {
		return "verbs", fmt.Sprintf("%%s|%%u = %q", s)
	}
	if id.String() != want || id.URN() != "urn:uuid:"+want {
		return "string_urn", fmt.Sprintf("String = %q URN = %q", id.String(), id.URN())
	}
	up := strings.ToUpper(want)
	texts := []string{want, up, "urn:uuid:" + want, "URN:uuid:" + up, "uRn:uuid:" + want, "Urn:uuid:" + up}
	for ti, t := range texts {
		for rule := 0; rule < 4; rule++ {
			isUp := ti%2 == 1 && up != want
			isURN := ti >= 2
			expectOK := !(isUp && rule&int(uu.RuleDisableUpperCaseDigits) != 0) && !(isURN && rule&int(uu.RuleDisableURN) != 0)
			g1, e1 := uu.DefaultParser(t, uu.Rule(rule))
			g2, e2 := uu.DefaultParser([]byte(t), uu.Rule(rule))
			for k, res := range []struct {
				g uu.ID
				e error
			}{{g1, e1}, {g2, e2}} {
				if expectOK {
					if res.e != nil || res.g != id {
						return "parse_back", fmt.Sprintf("DefaultParser[%d](%q, rule=%d) = %v, %v; want %v", k, t, rule, res.g, res.e, id)
					}
				} else {
					if res.e == nil || res.g != (uu.ID{}) || !typedFor(res.e, k == 1) {
						return "disabled_form_accepted", fmt.Sprintf("DefaultParser[%d](%q, rule=%d) = %v, %v; the form is disabled by the rule", k, t, rule, res.g, res.e)
					}
				}
			}
		}
		u := uu.ID{Higher: 7, Lower: 9}
		if err := u.UnmarshalText([]byte(t)); err != nil || u != id {
			return "unmarshaltext", fmt.Sprintf("UnmarshalText(%q) = %v, %v", t, u, err)
		}
	}
	// accessors
	if v := id.Version(); v != int(a.Hi>>12&0xf) {
		return "version", fmt.Sprintf("Version(%s) = %d", want, v)
	}
	// RFC 4122 variant: count of leading one bits of octet 8, capped at 3
	vb := a.Lo >> 60
	wantVar := 0
	switch {
	case vb&0x8 == 0:
		wantVar = 0
	case vb&0x4 == 0:
		wantVar = 1
	case vb&0x2 == 0:
		wantVar = 2
	default:
		wantVar = 3
	}
	if v := id.Variant(); v != wantVar {
		return "variant", fmt.Sprintf("Variant(%s) = %d want %d", want, v, wantVar)
	}
	// the version is the 13th hex digit of the text, the variant bits lead the 17th
	if c := want[14]; int(strings.IndexByte("0123456789abcdef", c)) != id.Version() {
		return "version_vs_text", fmt.Sprintf("Version(%s) = %d but text digit is %c", want, id.Version(), c)
	}
	return "", ""
}

type flightArg struct {
	A idArg `json:"a"`
	B idArg `json:"b"`
}

// a text handed out by one call must still read the same after a later call
func probeFlight(p flightArg) (string, string) {
	a, b := uu.ID{Higher: p.A.Hi, Lower: p.A.Lo}, uu.ID{Higher: p.B.Hi, Lower: p.B.Lo}
	wa, wb := oracle.UUIDText(p.A.Hi, p.A.Lo), oracle.UUIDText(p.B.Hi, p.B.Lo)
	ta, _ := a.MarshalText()
	tb, _ := b.MarshalText()
	fa, _ := uu.DefaultFormatter(nil, a, 0)
	fb, _ := uu.DefaultFormatter(nil, b, uu.FormatURN)
	if string(ta) != wa || string(tb) != wb || string(fa) != wa || string(fb) != "urn:uuid:"+wb {
		return "text_overwritten_by_later_call", fmt.Sprintf("texts of a, b kept across later calls read %q, %q, %q, %q; want %q and %q", ta, tb, fa, fb, wa, wb)
	}
	var g uu.ID
	if err := g.UnmarshalText(ta); err != nil || g != a {
		return "text_overwritten_by_later_call", fmt.Sprintf("the text kept from a.MarshalText() parses to %v, %v after later calls; want %v", g, err, a)
	}
	// the caller may write into a returned slice: later calls must not be affected by that
	defer mc.Scribble(ta, tb, fa, fb)()
	ta2, _ := a.MarshalText()
	fb2, _ := uu.DefaultFormatter(nil, b, uu.FormatURN)
	if string(ta2) != wa || string(fb2) != "urn:uuid:"+wb || a.String() != wa || b.URN() != "urn:uuid:"+wb {
		return "text_affected_by_caller_writing_into_earlier_result", fmt.Sprintf("after the caller overwrote earlier results: MarshalText = %q (want %q), DefaultFormatter(URN) = %q, String = %q, URN = %q", ta2, wa, fb2, a.String(), b.URN())
	}
	return "", ""
}

type txtArg struct {
	Max      *int    `json:"max_input_length,omitempty"` // nil = default 45
	In       mc.Bin  `json:"in"`
	Rule     int     `json:"rule"`
	Prev     *mc.Bin `json:"previous_call,omitempty"` // history of depth 2: parsed first, on the buffer that is then reused for In
	PrevRule int     `json:"previous_rule,omitempty"`
	PrevVia  int     `json:"previous_via,omitempty"` // the single previous call: 0 DefaultParser[[]byte] on the shared buffer, 1 DefaultParser[string], 2 UnmarshalText on the shared buffer
}

func setupText(a txtArg) {
	uu.MaxInputLength = libdefaults.UUMaxInputLength // default configuration: whatever the library starts with (the oracle assumes the documented 45)
	if a.Max != nil {
		uu.MaxInputLength = *a.Max
	}
}

func probeText(a txtArg) (string, string) {
	in := []byte(a.In)
	cls, hi, lo := oracle.UUIDParse(in, a.Rule&int(uu.RuleDisableURN) != 0, a.Rule&int(uu.RuleDisableUpperCaseDigits) != 0)
	if a.Max != nil && *a.Max != 0 && len(in) > *a.Max {
		cls = oracle.UReject
	}
	want := uu.ID{Higher: hi, Lower: lo}
	cp := append([]byte(nil), in...)
	if a.Prev != nil {
		buf := make([]byte, 0, 128)
		buf = append(buf, *a.Prev...)
		switch a.PrevVia {
		case 0:
			_, _ = uu.DefaultParser(buf, uu.Rule(a.PrevRule))
		case 1:
			_, _ = uu.DefaultParser(string(*a.Prev), uu.Rule(a.PrevRule))
		default:
			var id uu.ID
			_ = id.UnmarshalText(buf)
		}
		cp = append(buf[:0], in...) // the same backing array, overwritten in place
	}
	var g1, g2 uu.ID
	var e1, e2 error
	if a.Prev != nil { // history: the reused buffer is parsed first, directly after the previous call
		g2, e2 = uu.DefaultParser(cp, uu.Rule(a.Rule))
		g1, e1 = uu.DefaultParser(string(in), uu.Rule(a.Rule))
	} else {
		g1, e1 = uu.DefaultParser(string(in), uu.Rule(a.Rule))
		g2, e2 = uu.DefaultParser(cp, uu.Rule(a.Rule))
	}
	// named string / byte-slice input types behave like the plain ones
	type namedS string
	type namedB []byte
	if gn, en := uu.DefaultParser(namedS(in), uu.Rule(a.Rule)); gn != g1 || (en == nil) != (e1 == nil) {
		return "named_type_differs", fmt.Sprintf("DefaultParser[named string](%q, rule=%d) = %v, %v; plain string gives %v, %v", in, a.Rule, gn, en, g1, e1)
	}
	if gn, en := uu.DefaultParser(namedB(append([]byte(nil), in...)), uu.Rule(a.Rule)); gn != g2 || (en == nil) != (e2 == nil) {
		return "named_type_differs", fmt.Sprintf("DefaultParser[named []byte](%q, rule=%d) = %v, %v; plain []byte gives %v, %v", in, a.Rule, gn, en, g2, e2)
	}
	rs := []struct {
		g uu.ID
		e error
	}{{g1, e1}, {g2, e2}}
	if a.Rule == 0 {
		u := uu.ID{Higher: 7, Lower: 9}
		err := u.UnmarshalText(cp)
		if err != nil {
			u = uu.ID{}
		}
		rs = append(rs, struct {
			g uu.ID
			e error
		}{u, err})
	}
	for k, res := range rs {
		switch cls {
		case oracle.UAccept:
			if res.e != nil || res.g != want {
				return "valid_text_rejected_or_wrong", fmt.Sprintf("path %d: parse(%q, rule=%d) = %v, %v; want %v", k, in, a.Rule, res.g, res.e, want)
			}
		case oracle.UDontCare:
			if res.e == nil && res.g != want {
				return "wrong_value", fmt.Sprintf("path %d: parse(%q, rule=%d) = %v; want %v or an error", k, in, a.Rule, res.g, want)
			}
		default:
			if res.e == nil {
				return "malformed_accepted", fmt.Sprintf("path %d: parse(%q, rule=%d) accepted as %v", k, in, a.Rule, res.g)
			}
			if res.g != (uu.ID{}) {
				return "nonzero_result_with_error", fmt.Sprintf("path %d: parse(%q) = %v with %v", k, in, res.g, res.e)
			}
			if !typedFor(res.e, k >= 1) {
				return "untyped_error", fmt.Sprintf("path %d: parse(%q): %T %v is not a *uu.ParseError of the input's type", k, in, res.e, res.e)
			}
		}
	}
	return "", ""
}

var clsNames = [...]string{"accept", "reject", "reject_urn_disabled", "dontcare_prefix_case"}

func main() {
	mc.Main("C05", "single-position sweeps (each of 128 bits, each of 32 hex positions x 16 digits x 2 cases) over background IDs; all version x variant nibbles; 1-deviation (all 256 byte values) and 2-deviation (stated alphabet) mutants of valid texts x 4 rule subsets; "+
		"non-trivial = text of accepted length (36 or 45 bytes)", func(r *mc.Run) {
		firstuse.Phase(r, map[string][]string{"uu": {"format", "parse", "access"}})
		r.Reset = reset
		reset()
		pid := mc.NewProbe(r, "id", nil, probeID)
		ptx := mc.NewProbe(r, "text", setupText, probeText)
		r.Assume("reference: positional 8-4-4-4-12 big-endian table written from the RFC 4122 layout; prefix [uU][rR][nN]:uuid: ; a prefix that differs only in the case of 'uuid' is a don't-care (accept with the right value or reject)")
		r.Assume("the kind of error is only constrained as far as the statement names it: a typed *uu.ParseError (instantiated with the type of the input that was passed) and a zero ID; which sentinel is wrapped is not judged")
		pfl := mc.NewProbe(r, "two_results_in_flight", nil, probeFlight)
		bgs := []idArg{{0, 0}, {^uint64(0), ^uint64(0)}, {0x0123456789abcdef, 0xfedcba9876543210}, {0xa5a5a5a5a5a5a5a5, 0xa5a5a5a5a5a5a5a5}, {0x5a5a5a5a5a5a5a5a, 0x5a5a5a5a5a5a5a5a}}
		r.Phase("each background x {each of 128 bits toggled, each of 32 nibbles set to each of 16 values}: every output path, parse back in 6 renderings x 4 rules x {string,[]byte}, UnmarshalText, Version, Variant", "complete sweeps", func() {
			r.Parallel(int64(len(bgs))*(128+32*16), 4, func(w *mc.W, i int64) {
				bg := bgs[i/(128+512)]
				k := i % (128 + 512)
				a := bg
				if k < 128 {
					if k < 64 {
						a.Lo ^= 1 << uint(k)
					} else {
						a.Hi ^= 1 << uint(k-64)
					}
					w.Outcome("bit toggled")
				} else {
					k -= 128
					pos, v := uint(k/16), uint64(k%16)
					if pos < 16 {
						a.Lo = a.Lo&^(0xf<<(4*pos)) | v<<(4*pos)
					} else {
						a.Hi = a.Hi&^(0xf<<(4*(pos-16))) | v<<(4*(pos-16))
					}
					w.Outcome("nibble set")
				}
				w.Point()
				w.NonTrivial()
				pid.Do(w, a)
			})
		})
		r.Phase("serial: two formatted texts in flight (a result must survive later calls), all ordered pairs of the backgrounds", "complete for the listed ids", func() {
			r.Serial(func(w *mc.W) {
				for _, a := range bgs {
					for _, b := range bgs {
						w.Point()
						pfl.Do(w, flightArg{a, b})
					}
				}
			})
		})
		r.Phase("all 16x16 (version nibble, variant nibble) x backgrounds", "complete", func() {
			r.Parallel(int64(len(bgs))*256, 16, func(w *mc.W, i int64) {
				a := bgs[i/256]
				ver, vr := uint64(i%256/16), uint64(i%16)
				a.Hi = a.Hi&^(0xf<<12) | ver<<12
				a.Lo = a.Lo&^(0xf<<60) | vr<<60
				w.Point()
				w.NonTrivial()
				pid.Do(w, a)
			})
		})
		r.Sample("id", idArg{0x0123456789ab4def, 0x8edcba9876543210})
		r.Phase("IDs whose halves are related (lo = -hi, ^hi, hi, hi+1, hi-1, 0, all ones; hi from 40 values): every output path and parse back", "complete for the listed relations", func() {
			var xs []uint64
			for i := 0; i < 64; i += 3 {
				xs = append(xs, 1<<uint(i), ^uint64(0)>>uint(i))
			}
			xs = append(xs, 0, 1, 0x8000000000000000, 0x0123456789abcdef, 0xfedcba9876543210)
			r.Parallel(int64(len(xs)), 1, func(w *mc.W, i int64) {
				x := xs[i]
				for _, lo := range []uint64{-x, ^x, x, x + 1, x - 1, 0, ^uint64(0), x << 1, x >> 1} {
					w.Point()
					w.NonTrivial()
					pid.Do(w, idArg{x, lo})
					pid.Do(w, idArg{lo, x})
				}
			})
		})
		one := func(w *mc.W, s []byte) {
			for rule := 0; rule < 4; rule++ {
				cls, _, _ := oracle.UUIDParse(s, rule&1 != 0, rule&2 != 0)
				w.Point()
				w.Outcome(clsNames[cls])
				if len(s) == 36 || len(s) == 45 {
					w.NonTrivial()
				}
				ptx.Do(w, txtArg{In: mc.Bin(s), Rule: rule})
			}
		}
		var bases []string
		for _, b := range bgs[1:4] {
			t := oracle.UUIDText(b.Hi, b.Lo)
			bases = append(bases, t, "urn:uuid:"+t, strings.ToUpper(t), "URN:uuid:"+strings.ToUpper(t))
		}
		r.Phase(fmt.Sprintf("special words (null, nil, true, NaN, {}, ...) and 1-deviation mutants (substitute/insert all 256 byte values, delete) of %d valid texts x 4 rules x 3 entry points", len(bases)), "complete for 1 deviation", func() {
			r.Parallel(int64(len(bases)), 1, func(w *mc.W, i int64) {
				one(w, []byte(bases[i]))
				if i == 0 {
					for _, sw := range mc.SpecialWords {
						one(w, []byte(sw))
					}
				}
				mc.Mutations1([]byte(bases[i]), mc.AllBytes, func(m []byte) { one(w, m) })
				mc.MutationsTok([]byte(bases[i]), mc.Lookalikes, func(m []byte) { one(w, m) })
			})
		})
		r.Sample("text", txtArg{In: "urn:uuid:01234567-89ab-cdef-fedc-ba987654321g", Rule: 0})
		r.Phase("serial: all histories of two parser calls over 16 texts x 4 rules (the second call is judged; the caller reuses one buffer)", "complete for depth 2 over the listed texts", func() {
			t0 := "01234567-89ab-cdef-fedc-ba9876543210"
			texts := []string{t0, "01234567-89ab-cdef-fedc-ba9876543211", "01234567-89AB-CDEF-FEDC-BA9876543210", "urn:uuid:" + t0, "URN:uuid:" + t0, "urn:uuid:01234567-89AB-CDEF-FEDC-BA9876543210",
				"01234567-89ab-cdef-fedc-ba987654321g", "0123456789ab-cdef-fedc-ba9876543210-", "", "x", "urn:uuid:", "urn;uuid:" + t0, "01234567-89ab-cdef-fedc-ba987654321", "ffffffff-ffff-ffff-ffff-ffffffffffff", "00000000-0000-0000-0000-000000000000", "01234567-89ab-cdef-fedc-ba98765432100"}
			r.Serial(func(w *mc.W) {
				for _, x := range texts {
					for rx := 0; rx < 4; rx++ {
						for _, y := range texts {
							for ry := 0; ry < 4; ry++ {
								for via := 0; via < 3; via++ {
									w.Point()
									px := mc.Bin(x)
									ptx.Do(w, txtArg{In: mc.Bin(y), Rule: ry, Prev: &px, PrevRule: rx, PrevVia: via})
								}
							}
						}
					}
				}
			})
		})
		alpha := []byte("-0a9fFgG:/ @`\x00Au \xff\n1bBeE7\x80\x10\x19\x7f.,_Uu")
		if !r.Quick() {
			alpha = mc.AllBytes
		}
		two := bases[:2]
		r.Phase(fmt.Sprintf("2-deviation substitution mutants of %d valid texts: all position pairs x %d^2 byte values", len(two), len(alpha)), "complete for 2 substitutions over the stated alphabet", func() {
			for _, base := range two {
				base := []byte(base)
				n := len(base)
				r.Parallel(int64(n*n), 1, func(w *mc.W, idx int64) {
					i, j := int(idx)/n, int(idx)%n
					if i >= j {
						return
					}
					buf := append([]byte(nil), base...)
					for _, x := range alpha {
						for _, y := range alpha {
							buf[i], buf[j] = x, y
							one(w, buf)
						}
					}
				})
			}
		})
		for _, ml := range []int{0, 100, 46, 36, 40} {
			ml := ml
			r.Phase(fmt.Sprintf("MaxInputLength=%d: every substring of 4 valid texts and every extension by 1..20 bytes (5 fill bytes, before and after) x 4 rules", ml), "complete for the listed texts", func() {
				setupText(txtArg{Max: &ml})
				r.Parallel(int64(len(bases[:4])), 1, func(w *mc.W, bi int64) {
					v := bases[bi]
					seen := map[string]bool{}
					do := func(s string) {
						if seen[s] {
							return
						}
						seen[s] = true
						for rule := 0; rule < 4; rule++ {
							w.Point()
							ptx.Do(w, txtArg{In: mc.Bin(s), Rule: rule, Max: &ml})
						}
					}
					for i := 0; i <= len(v); i++ {
						for j := i; j <= len(v); j++ {
							do(v[i:j])
						}
					}
					for _, fill := range []string{"0", "a", "-", " ", "\n"} {
						for k := 1; k <= 20; k++ {
							do(v + strings.Repeat(fill, k))
							do(strings.Repeat(fill, k) + v)
						}
					}
				})
				reset()
			})
		}
		// wrapped texts: a valid text between every pair (a, b) of bytes from a bracket / quote / separator / hex alphabet
		// (two insertions: {..}, "..", (..), <..>, spaces, ...), and with every two-byte prefix or suffix over it
		r.Phase("valid texts (plain, upper case, URN) wrapped in every pair of bytes over a 24-byte bracket/quote/separator/hex alphabet, and extended by every two-byte prefix or suffix x 4 rules", "complete grid", func() {
			wrap := []byte("{}()[]<>\"'` \t\n-_:,.0afAF")
			r.Parallel(int64(len(wrap)), 1, func(w *mc.W, i int64) {
				a := wrap[i]
				for _, base := range []string{bases[0], strings.ToUpper(bases[0]), "urn:uuid:" + bases[0], "urn:uuid:" + strings.ToUpper(bases[1])} {
					for _, b := range wrap {
						one(w, []byte(string(a)+base+string(b)))
						one(w, []byte(string(a)+string(b)+base))
						one(w, []byte(base+string(a)+string(b)))
					}
				}
			})
		})
		// truncated / extended lengths
		r.Phase("all lengths 0..60 of a repeated valid text, and prefix variants", "complete grid", func() {
			r.Serial(func(w *mc.W) {
				long := strings.Repeat(bases[1], 2)
				for l := 0; l <= 60; l++ {
					one(w, []byte(long[:l]))
					one(w, []byte(long[9:9+l]))
				}
				t := bases[0]
				for _, pre := range []string{"urn:uuid:", "URN:UUID:", "urn:UUID:", "urn:uuiD:", "urn-uuid:", "urn:uuid-", "uuid:urn:", "urn:uuid;", "urn:guid:", "u\xd2n:uuid:", "\xf5rn:uuid:", "ur\xce:uuid:", "URN:uuid:", "UrN:uuid:", "{urnuuid}"} {
					one(w, []byte(pre+t))
				}
			})
		})
	})
}
