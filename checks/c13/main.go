// C13: shortened and pretty size renderings are exact and maximal.
package main

import (
	"fmt"

	"go.lstv.dev/util/size"
	"verif/firstuse"
	"verif/libdefaults"
	"verif/mc"
	"verif/oracle"
)

type arg struct {
	S   uint64 `json:"size"`
	Cfg int    `json:"cfg,omitempty"` // bit0 DisableMarshalTextUnit, bit1 DisableMarshalJSONStringForm, bit2 DisableMarshalJSONObjectForm: the renderings of C13 do not depend on them
}

func setup(a arg) {
	size.DisableMarshalTextUnit = a.Cfg&1 != 0
	size.DisableMarshalJSONStringForm = a.Cfg&2 != 0
	size.DisableMarshalJSONObjectForm = a.Cfg&4 != 0
}

func reset() {
	libdefaults.Size()
}

func probe(a arg) (string, string) {
	s := size.Size(a.S)
	wv, wu := oracle.Shorten(a.S)
	v, u := s.Shorten()
	if v != wv || u != wu {
		return "shorten", fmt.Sprintf("Size(%d).Shorten() = %d %q; want %d %q", a.S, v, u, wv, wu)
	}
	plain := oracle.Decimal(wv) + wu
	pretty := oracle.Group(wv, " ") + " " + wu
	html := oracle.Group(wv, "&nbsp;") + "&nbsp;" + wu
	for _, c := range []struct {
		f    size.Format
		want string
	}{{0, plain}, {size.FormatPretty, pretty}, {size.FormatPretty | size.FormatHTML, html}, {size.FormatHTML, plain}} {
		// the rendering "contains nothing else" and is only appended: a buffer that already holds text (ending in a digit,
		// a separator or a unit letter) must come back as that text followed by exactly the rendering
		for _, pre := range []string{"sda1", "disk 10", "9", "1 ", "x=", "5 KiB", "&nbsp;", "1\u00a0", "B"} {
			pb, err := size.DefaultFormatter(append(make([]byte, 0, len(pre)+40), pre...), s, c.f)
			if err != nil || string(pb) != pre+c.want {
				return "formatter_after_existing_text", fmt.Sprintf("DefaultFormatter(%q, %d, format=%d) = %q, %v; want %q", pre, a.S, c.f, pb, err, pre+c.want)
			}
		}
		b, err := size.DefaultFormatter(nil, s, c.f)
		if err != nil || string(b) != c.want {
			return "formatter", fmt.Sprintf("DefaultFormatter(%d, format=%d) = %q, %v; want %q", a.S, c.f, b, err, c.want)
		}
		// the rendering must not depend on the destination buffer's spare capacity
		for _, spare := range []int{1, 8, 24, 64} {
			b, err = size.DefaultFormatter(make([]byte, 0, spare), s, c.f)
			if err != nil || string(b) != c.want {
				return "formatter_with_spare_capacity", fmt.Sprintf("DefaultFormatter(make([]byte,0,%d), %d, format=%d) = %q, %v; want %q", spare, a.S, c.f, b, err, c.want)
			}
		}
	}
	if g := s.String(); g != plain {
		return "string", fmt.Sprintf("Size(%d).String() = %q want %q", a.S, g, plain)
	}
	if g := s.PrettyString(); g != pretty {
		return "prettystring", fmt.Sprintf("Size(%d).PrettyString() = %q want %q", a.S, g, pretty)
	}
	if g := string(s.PrettyHTML()); g != html {
		return "prettyhtml", fmt.Sprintf("Size(%d).PrettyHTML() = %q want %q", a.S, g, html)
	}
	if g := fmt.Sprintf("%v|%s", s, s); g != plain+"|"+plain {
		return "sprintf", fmt.Sprintf("%%v|%%s of Size(%d) = %q want %q", a.S, g, plain)
	}
	return "", ""
}

// history of depth 2: a rendering must not depend on the rendering made before it
type histArg struct {
	S1, S2 uint64
	F1, F2 int // 0 plain, 1 pretty, 2 pretty HTML, 3 Shorten only
}

func render(s uint64, f int) string {
	switch f {
	case 0:
		return size.Size(s).String()
	case 1:
		return size.Size(s).PrettyString()
	case 2:
		return string(size.Size(s).PrettyHTML())
	}
	v, u := size.Size(s).Shorten()
	return fmt.Sprint(v, u)
}

func probeHist(h histArg) (string, string) {
	_ = render(h.S1, h.F1)
	got := render(h.S2, h.F2)
	wv, wu := oracle.Shorten(h.S2)
	want := []string{oracle.Decimal(wv) + wu, oracle.Group(wv, " ") + " " + wu, oracle.Group(wv, "&nbsp;") + "&nbsp;" + wu, fmt.Sprint(wv, wu)}[h.F2]
	if got != want {
		return "after_previous_call:rendering", fmt.Sprintf("after rendering %d in form %d, rendering %d in form %d gives %q want %q", h.S1, h.F1, h.S2, h.F2, got, want)
	}
	return "", ""
}

func main() {
	mc.Main("C13", "every value of the stated alphabet (all values below 2^20 (quick) / 2^24 (thorough), odd x 2^k for every k, neighbourhoods of 10^k/1000^k/1024^k/2^63/2^64-1, one value per (unit, digit count) cell) x 4 formats x 5 rendering paths; "+
		"non-trivial = value is shortened to a unit above B or has more than three digits", func(r *mc.Run) {
		firstuse.Phase(r, map[string][]string{"size": {"format"}})
		r.Reset = reset
		reset()
		p := mc.NewProbe(r, "render", setup, probe)
		r.Assume("reference: math/big division for the maximal 1024^k divisor (k<=6), right-to-left digit grouping")
		r.Assume("values outside the stated alphabet are not covered; coverage argument: the formatter's control flow depends only on (number of stripped 10-bit groups, digit count), both of which are covered in every feasible combination")
		ph := mc.NewProbe(r, "history2", nil, probeHist)
		r.Phase("serial: all histories of two renderings over 10 sizes x 4 forms (the second rendering is judged)", "complete for depth 2 over the listed sizes", func() {
			hs := []uint64{0, 1, 1023, 1024, 1234567, 1234567 << 10, 5 << 30, 5125, 1 << 60, 18446744073709551615}
			r.Serial(func(w *mc.W) {
				for _, a := range hs {
					for fa := 0; fa < 4; fa++ {
						for _, b := range hs {
							for fb := 0; fb < 4; fb++ {
								w.Point()
								ph.Do(w, histArg{a, b, fa, fb})
							}
						}
					}
				}
			})
		})
		dense, neigh := uint64(1<<22), uint64(4000)
		if !r.Quick() {
			dense, neigh = 1<<24, 20000
		}
		vals := oracle.SizeValues(dense, neigh)
		r.Extra["value_alphabet_size"] = len(vals)
		r.Phase(fmt.Sprintf("%d values x {0,Pretty,Pretty|HTML,HTML} x {Shorten, DefaultFormatter, String, PrettyString, PrettyHTML}", len(vals)), "complete over the value alphabet", func() {
			r.Parallel(int64(len(vals)), 1024, func(w *mc.W, i int64) {
				w.Point()
				v, u := oracle.Shorten(vals[i])
				if u != "B" || v > 999 {
					w.NonTrivial()
				}
				if w.R != nil && i%4096 == 0 {
					w.Outcome("unit " + u)
					w.Outcome(fmt.Sprintf("digits%%3=%d", len(oracle.Decimal(v))%3))
				}
				p.Do(w, arg{S: vals[i]})
			})
			r.Serial(func(w *mc.W) {
				for _, x := range vals {
					_, u := oracle.Shorten(x)
					w.Outcome("unit " + u)
				}
			})
		})
		r.Sample("value", arg{S: 123456 << 30})
		r.Sample("value", arg{S: 15 << 60})
		small := oracle.SizeValues(1<<12, 50)
		for cfg := 1; cfg < 8; cfg++ {
			cfg := cfg
			r.Phase(fmt.Sprintf("marshal switches cfg=%d (DisableMarshalTextUnit/JSONStringForm/JSONObjectForm): %d values, all renderings are unaffected by them", cfg, len(small)), "complete over the reduced value alphabet", func() {
				setup(arg{Cfg: cfg})
				r.Parallel(int64(len(small)), 256, func(w *mc.W, i int64) {
					w.Point()
					p.Do(w, arg{S: small[i], Cfg: cfg})
				})
				reset()
			})
		}
	})
}
