// C13: shortened and pretty size renderings are exact and maximal.
package main

import (
	"fmt"

	"go.lstv.dev/util/size"
	"verif/mc"
	"verif/oracle"
)

type arg struct {
	S uint64 `json:"size"`
}

func reset() {
	size.Formatter = size.DefaultFormatter
	size.Parser = size.DefaultParser[[]byte]
	size.DisableMarshalTextUnit, size.DisableMarshalJSONStringForm, size.DisableMarshalJSONObjectForm = false, false, false
}

func probe(a arg) (string, string) {
	s := size.Size(a.S)
	wv, wu := oracle.Shorten(a.S)
	v, u := s.Shorten()
	if v != wv || u != wu {
		return "shorten", fmt.Sprintf("Size(%d).Shorten() = %d %q; want %d %q", a.S, v, u, wv, wu)
	}
	plain := oracle.Decimal(wv) + wu
	pretty := oracle.Group(wv, " ") + " " + wu
	html := oracle.Group(wv, "&nbsp;") + "&nbsp;" + wu
	for _, c := range []struct {
		f    size.Format
		want string
	}{{0, plain}, {size.FormatPretty, pretty}, {size.FormatPretty | size.FormatHTML, html}, {size.FormatHTML, plain}} {
		b, err := size.DefaultFormatter(nil, s, c.f)
		if err != nil || string(b) != c.want {
			return "formatter", fmt.Sprintf("DefaultFormatter(%d, format=%d) = %q, %v; want %q", a.S, c.f, b, err, c.want)
		}
		// the rendering must not depend on the destination buffer's spare capacity
		for _, spare := range []int{1, 8, 24, 64} {
			b, err = size.DefaultFormatter(make([]byte, 0, spare), s, c.f)
			if err != nil || string(b) != c.want {
				return "formatter_with_spare_capacity", fmt.Sprintf("DefaultFormatter(make([]byte,0,%d), %d, format=%d) = %q, %v; want %q", spare, a.S, c.f, b, err, c.want)
			}
		}
	}
	if g := s.String(); g != plain {
		return "string", fmt.Sprintf("Size(%d).String() = %q want %q", a.S, g, plain)
	}
	if g := s.PrettyString(); g != pretty {
		return "prettystring", fmt.Sprintf("Size(%d).PrettyString() = %q want %q", a.S, g, pretty)
	}
	if g := string(s.PrettyHTML()); g != html {
		return "prettyhtml", fmt.Sprintf("Size(%d).PrettyHTML() = %q want %q", a.S, g, html)
	}
	if g := fmt.Sprintf("%v|%s", s, s); g != plain+"|"+plain {
		return "sprintf", fmt.Sprintf("%%v|%%s of Size(%d) = %q want %q", a.S, g, plain)
	}
	return "", ""
}

func main() {
	mc.Main("C13", "every value of the stated alphabet (all values below 2^20 (quick) / 2^24 (thorough), odd x 2^k for every k, neighbourhoods of 10^k/1000^k/1024^k/2^63/2^64-1, one value per (unit, digit count) cell) x 4 formats x 5 rendering paths; "+
		"non-trivial = value is shortened to a unit above B or has more than three digits", func(r *mc.Run) {
		r.Reset = reset
		reset()
		p := mc.NewProbe(r, "render", nil, probe)
		r.Assume("reference: math/big division for the maximal 1024^k divisor (k<=6), right-to-left digit grouping")
		r.Assume("values outside the stated alphabet are not covered; coverage argument: the formatter's control flow depends only on (number of stripped 10-bit groups, digit count), both of which are covered in every feasible combination")
		dense, neigh := uint64(1<<20), uint64(1000)
		if !r.Quick() {
			dense, neigh = 1<<24, 20000
		}
		vals := oracle.SizeValues(dense, neigh)
		r.Extra["value_alphabet_size"] = len(vals)
		r.Phase(fmt.Sprintf("%d values x {0,Pretty,Pretty|HTML,HTML} x {Shorten, DefaultFormatter, String, PrettyString, PrettyHTML}", len(vals)), "complete over the value alphabet", func() {
			r.Parallel(int64(len(vals)), 1024, func(w *mc.W, i int64) {
				w.Point()
				v, u := oracle.Shorten(vals[i])
				if u != "B" || v > 999 {
					w.NonTrivial()
				}
				if w.R != nil && i%4096 == 0 {
					w.Outcome("unit " + u)
					w.Outcome(fmt.Sprintf("digits%%3=%d", len(oracle.Decimal(v))%3))
				}
				p.Do(w, arg{vals[i]})
			})
			r.Serial(func(w *mc.W) {
				for _, x := range vals {
					_, u := oracle.Shorten(x)
					w.Outcome("unit " + u)
				}
			})
		})
		r.Sample("value", arg{123456 << 30})
		r.Sample("value", arg{15 << 60})
	})
}
