// C16: formatters append to the caller's buffer without disturbing it.
package main

import (
	"bytes"
	"fmt"

	"go.lstv.dev/util/date"
	"go.lstv.dev/util/roman"
	"go.lstv.dev/util/sem"
	"go.lstv.dev/util/size"
	"go.lstv.dev/util/uu"
	"verif/firstuse"
	"verif/libdefaults"
	"verif/mc"
	"verif/oracle"
)

type arg struct {
	Type   string `json:"type"` // date roman sem size uu
	Val    int    `json:"value_index"`
	Flags  int    `json:"flags"`
	Prefix mc.Bin `json:"prefix"`
	Spare  int    `json:"spare_capacity"`
}

var dates = []date.Date{{}, date.New(2024, 2, 29), date.New(9999, 12, 31), date.New(0, 1, 1), date.New(123456789, 10, 11),
	date.New(-1, 12, 31), date.New(-44, 3, 15), date.New(-99, 1, 1), date.New(-100, 6, 7), date.New(-9999, 2, 28), date.New(10000, 1, 1), date.New(7, 8, 9), date.New(999999999, 12, 31), date.New(-999999999, 1, 1)}
var romans = []roman.Number{0, 1, 4, 9, 14, 40, 49, 90, 400, 444, 900, 999, 1994, 3888, 3999, 4999, 12000, 63999, 64000, 65444, 130000}
var sems = []sem.Ver{{}, sem.New(1, 2, 3), sem.New(1, 0, 0, "alpha.1"), sem.New(18446744073709551615, 0, 7, "rc-1", "build.5"), sem.New(0, 0, 1, "", "exp.sha.5114f85"), sem.New(10, 20, 30, "-v-", "v1")}
var sizes = []size.Size{0, 1, 999, 1000, 1023, 1024, 1025, 1234567, 1 << 20, 1 << 30, 123456789012, 1 << 60, 5 << 60, 18446744073709551615, 1000000, 100000 << 10}
var ids = []uu.ID{{}, {Higher: 0x0123456789abcdef, Lower: 0xfedcba9876543210}, {Higher: ^uint64(0), Lower: ^uint64(0)}, {Higher: 0xa5a5a5a5a5a54a5a, Lower: 0x85a5a5a5a5a5a5a5}, {Higher: 0xabcdefabcdefabcd, Lower: 0xefabcdefabcdefab}}

func nvals(t string) int {
	switch t {
	case "date":
		return len(dates)
	case "roman":
		return len(romans)
	case "sem":
		return len(sems)
	case "size":
		return len(sizes)
	}
	return len(ids)
}
func nflags(t string) int {
	switch t {
	case "date", "sem", "uu":
		return 2
	case "roman":
		return 128
	}
	return 4
}

func format(t string, buf []byte, vi, f int) ([]byte, error) {
	switch t {
	case "date":
		return date.DefaultFormatter(buf, dates[vi], date.Format(f))
	case "roman":
		return roman.DefaultFormatter(buf, romans[vi], roman.Format(f))
	case "sem":
		return sem.DefaultFormatter(buf, sems[vi], sem.Format(f))
	case "size":
		return size.DefaultFormatter(buf, sizes[vi], size.Format(f))
	}
	return uu.DefaultFormatter(buf, ids[vi], uu.Format(f))
}

func probe(a arg) (string, string) {
	base, err := format(a.Type, nil, a.Val, a.Flags)
	if err != nil {
		return "formatter_error", fmt.Sprintf("%s formatter returned %v", a.Type, err)
	}
	baseCopy := append([]byte(nil), base...)
	prefix := []byte(a.Prefix)
	arr := make([]byte, len(prefix)+a.Spare)
	for i := range arr {
		arr[i] = 0xEE
	}
	copy(arr, prefix)
	buf := arr[:len(prefix)]
	out, err := format(a.Type, buf, a.Val, a.Flags)
	if err != nil {
		return "formatter_error", fmt.Sprintf("%s formatter returned %v", a.Type, err)
	}
	want := append(append([]byte(nil), prefix...), baseCopy...)
	if !bytes.Equal(out, want) {
		return "not_prefix_plus_output", fmt.Sprintf("%s value#%d flags=%#x prefix=%q cap+%d: got %q want %q", a.Type, a.Val, a.Flags, prefix, a.Spare, out, want)
	}
	if !bytes.Equal(arr[:len(prefix)], prefix) {
		return "caller_bytes_modified", fmt.Sprintf("%s value#%d flags=%#x: the caller's bytes %q became %q", a.Type, a.Val, a.Flags, prefix, arr[:len(prefix)])
	}
	// a second, different call must not disturb the first result (no shared scratch buffer)
	outCopy := append([]byte(nil), out...)
	other, _ := format(a.Type, []byte("zz"), (a.Val+1)%nvals(a.Type), (a.Flags+1)%nflags(a.Type))
	_ = other
	if !bytes.Equal(out, outCopy) || !bytes.Equal(base, baseCopy) {
		return "result_aliases_shared_state", fmt.Sprintf("%s value#%d: an earlier result changed from %q to %q (base %q -> %q) after a later call", a.Type, a.Val, outCopy, out, baseCopy, base)
	}
	// the caller reuses its buffer (overwrites the whole backing array); formatting the same value again must not be affected
	full := out[:cap(out)]
	saved := append([]byte(nil), full...)
	for i := range full {
		full[i] = '~'
	}
	for i := range arr {
		arr[i] = '~'
	}
	re, _ := format(a.Type, append([]byte(nil), prefix...), a.Val, a.Flags)
	reOK := bytes.Equal(re, want)
	reText := string(re)
	copy(full, saved) // put the bytes back (replays must see the same state even if a broken tree kept a reference)
	if !reOK {
		return "affected_by_caller_reusing_its_buffer", fmt.Sprintf("%s value#%d flags=%#x: after the caller overwrote the buffer of an earlier call, formatting the same value gives %q want %q", a.Type, a.Val, a.Flags, reText, want)
	}
	again, _ := format(a.Type, nil, a.Val, a.Flags)
	if !bytes.Equal(again, baseCopy) {
		return "nondeterministic_output", fmt.Sprintf("%s value#%d flags=%#x: %q then %q", a.Type, a.Val, a.Flags, baseCopy, again)
	}
	return "", ""
}

// first use: the very first formatting of a value goes into the caller's buffer; the caller then reuses that buffer;
// formatting the same value again must still give the right text (expected texts come from the reference models,
// so that this phase performs the first formatting of these values in the process)
type firstArg struct {
	Type string `json:"type"`
	K    int    `json:"k"`
}

var firstDates = [][3]int{{1987, 6, 5}, {2031, 11, 30}, {1, 2, 3}}
var firstRomans = []uint64{1987, 3, 3998, 44, 2749, 12001}
var firstSizes = []uint64{1987, 77 << 20, 1234567, 3 << 40}
var firstIDs = [][2]uint64{{0x1111222233334444, 0x9555666677778888}, {0x0f0f0f0f0f0f4f0f, 0xb0f0f0f0f0f0f0f0}}

func probeFirst(a firstArg) (string, string) {
	var want string
	var call func(buf []byte) []byte
	switch a.Type {
	case "date":
		d := firstDates[a.K]
		want = oracle.DateText(int64(d[0]), d[1], d[2], false)
		call = func(buf []byte) []byte {
			b, _ := date.DefaultFormatter(buf, date.New(d[0], date.Month(d[1]), d[2]), 0)
			return b
		}
	case "roman":
		want = oracle.RomanText(firstRomans[a.K], 0)
		call = func(buf []byte) []byte {
			b, _ := roman.DefaultFormatter(buf, roman.Number(firstRomans[a.K]), 0)
			return b
		}
	case "size":
		v, u := oracle.Shorten(firstSizes[a.K])
		want = oracle.Decimal(v) + u
		call = func(buf []byte) []byte { b, _ := size.DefaultFormatter(buf, size.Size(firstSizes[a.K]), 0); return b }
	case "sem":
		want = fmt.Sprintf("7.%d.1987-rc.%d+b", a.K, a.K)
		v := sem.New(7, uint64(a.K), 1987, fmt.Sprintf("rc.%d", a.K), "b")
		call = func(buf []byte) []byte { b, _ := sem.DefaultFormatter(buf, v, 0); return b }
	default:
		want = oracle.UUIDText(firstIDs[a.K][0], firstIDs[a.K][1])
		id := uu.ID{Higher: firstIDs[a.K][0], Lower: firstIDs[a.K][1]}
		call = func(buf []byte) []byte { b, _ := uu.DefaultFormatter(buf, id, 0); return b }
	}
	scratch := make([]byte, 0, 96)
	first := call(scratch)
	if string(first) != want {
		return "wrong_text_in_first_use_sequence", fmt.Sprintf("%s: first formatting into a scratch buffer gives %q want %q", a.Type, first, want)
	}
	line := append(scratch[:0], "year: "...) // the caller reuses its scratch buffer
	second := call(line)
	if string(second) != "year: "+want {
		return "wrong_text_in_first_use_sequence", fmt.Sprintf("%s: second formatting into the reused buffer gives %q want %q", a.Type, second, "year: "+want)
	}
	for i := range scratch[:cap(scratch)] {
		scratch[:cap(scratch)][i] = '~'
	}
	third := call([]byte("AB"))
	if string(third) != "AB"+want {
		return "wrong_text_in_first_use_sequence", fmt.Sprintf("%s: formatting after the caller overwrote its scratch buffer gives %q want %q", a.Type, third, "AB"+want)
	}
	return "", ""
}

type urnArg struct {
	Val    int  `json:"value_index"`
	Custom bool `json:"custom_formatter_installed,omitempty"` // a user-installed uu.Formatter must not change ID.URN (it is defined through the default plain rendering)
}

func setupURN(a urnArg) {
	libdefaults.UU()
	if a.Custom {
		uu.Formatter = func(buf []byte, id uu.ID, f uu.Format) ([]byte, error) {
			return append(buf, fmt.Sprintf("{%016X%016X}", id.Higher, id.Lower)...), nil
		}
	}
}

func probeURN(a urnArg) (string, string) {
	id := ids[a.Val]
	plain, _ := uu.DefaultFormatter(nil, id, 0)
	if got := id.URN(); got != "urn:uuid:"+string(plain) {
		return "urn", fmt.Sprintf("URN() = %q want %q", got, "urn:uuid:"+string(plain))
	}
	first := id.URN()
	_ = ids[(a.Val+1)%len(ids)].URN()
	if first != id.URN() || !a.Custom && first != "urn:uuid:"+id.String() {
		return "urn_unstable", fmt.Sprintf("URN() = %q, again %q, String %q", first, id.URN(), id.String())
	}
	if f, _ := uu.DefaultFormatter(nil, id, uu.FormatURN); string(f) != first {
		return "urn_vs_format_urn", fmt.Sprintf("URN() = %q, FormatURN = %q", first, f)
	}
	return "", ""
}

func main() {
	mc.Main("C16", "every (type, value, flag subset, prefix, spare capacity) of the stated grids; prefixes include every single byte value and the letters/digits each formatter emits; "+
		"non-trivial = the prefix contains a byte the formatter itself can emit", func(r *mc.Run) {
		firstuse.Phase(r, map[string][]string{"date": {"format"}, "roman": {"format"}, "sem": {"format"}, "size": {"format"}, "uu": {"format"}})
		p := mc.NewProbe(r, "append", nil, probe)
		pu := mc.NewProbe(r, "urn", setupURN, probeURN)
		r.Reset = libdefaults.All
		r.Assume("oracle: out == prefix ++ format(nil); the caller's backing array is snapshotted before the call and its prefix bytes compared after; the spare capacity region may be written")
		pf := mc.NewProbe(r, "first_use", nil, probeFirst)
		r.Phase("serial: first-use sequences (first formatting of a value into the caller's scratch buffer, buffer reused, buffer overwritten, formatted again) for values not formatted before in this process", "complete for the listed values", func() {
			r.Serial(func(w *mc.W) {
				for t, n := range map[string]int{"date": len(firstDates), "roman": len(firstRomans), "size": len(firstSizes), "sem": 3, "uu": len(firstIDs)} {
					for k := 0; k < n; k++ {
						w.Point()
						w.NonTrivial()
						pf.Do(w, firstArg{t, k})
					}
				}
			})
		})
		var prefixes [][]byte
		for b := 0; b < 256; b++ {
			prefixes = append(prefixes, []byte{byte(b)})
		}
		for _, s := range []string{"", "AB", "MDCLXVI", "mdclxvi", "MIX:", "ivx", "IVX IVX", "0123456789abcdef-", "ABCDEF", "urn:uuid:", "URN:UUID:", "KiB ", "1 024 B", "v1.2.3-a+b", "&nbsp;", "2006-01-02", "  ", "\x00\xff", "Ünï", "MMMM", "III", "CCC", "XXX", "DDD", "LLL", "VVV"} {
			prefixes = append(prefixes, []byte(s))
		}
		emits := map[string]string{"date": "0123456789-", "roman": "MDCLXVImdclxvi", "sem": "0123456789.-+vabcdefghijklmnopqrstuvwxyz", "size": "0123456789 &nbsp;BKMGTPEi", "uu": "0123456789abcdef-urn:id"}
		spares := []int{0, 1, 2, 7, 64, 513, 1024, 5000, 70000}
		for _, t := range []string{"date", "roman", "sem", "size", "uu"} {
			t := t
			r.Phase(fmt.Sprintf("%s.DefaultFormatter: %d values x %d flag subsets x %d prefixes x spare capacities", t, nvals(t), nflags(t), len(prefixes)), "complete grid; spare capacity 0..64 for the multi-byte prefixes, {0,1,2,7,64} for single-byte prefixes", func() {
				n := int64(nvals(t) * nflags(t))
				r.Parallel(n, 1, func(w *mc.W, i int64) {
					vi, f := int(i)/nflags(t), int(i)%nflags(t)
					for pi, pre := range prefixes {
						sp := spares
						if pi >= 256 && (nflags(t) <= 4 || f == 0 || f == nflags(t)-1 || f == 64 || f == 63) {
							sp = sp[:0]
							for s := 0; s <= 64; s++ {
								sp = append(sp, s)
							}
						}
						nt := bytes.ContainsAny(pre, emits[t])
						for _, s := range sp {
							w.Point()
							if nt {
								w.NonTrivial()
							}
							p.Do(w, arg{Type: t, Val: vi, Flags: f, Prefix: mc.Bin(pre), Spare: s})
						}
					}
					w.Outcome(t)
				})
			})
		}
		// long prefixes: a formatter that sizes its result from the text alone (not prefix + text) cuts a long prefix when
		// the buffer has to grow. Prefix lengths around the powers of two up to 4096 and around typical text sizes.
		var longPre [][]byte
		for _, n := range []int{31, 32, 33, 47, 48, 63, 64, 65, 66, 70, 80, 96, 100, 127, 128, 129, 200, 255, 256, 257, 500, 1000, 1023, 1024, 1025, 4096} {
			b := make([]byte, n)
			for i := range b {
				b[i] = "0123456789abcdefXIVM-."[i%22]
			}
			longPre = append(longPre, b)
		}
		for _, t := range []string{"date", "roman", "sem", "size", "uu"} {
			t := t
			r.Phase(fmt.Sprintf("%s.DefaultFormatter: %d values x %d flag subsets x %d long prefixes (31..4096 bytes) x spare capacities {0,1,5,16,40,100}", t, nvals(t), nflags(t), len(longPre)), "complete grid", func() {
				n := int64(nvals(t) * nflags(t))
				r.Parallel(n, 1, func(w *mc.W, i int64) {
					vi, f := int(i)/nflags(t), int(i)%nflags(t)
					for _, pre := range longPre {
						for _, spare := range []int{0, 1, 5, 16, 40, 100} {
							w.Point()
							w.NonTrivial()
							p.Do(w, arg{Type: t, Val: vi, Flags: f, Prefix: mc.Bin(pre), Spare: spare})
						}
					}
					w.Outcome("long prefix: " + t)
				})
			})
		}
		r.Sample("append", arg{Type: "roman", Val: 2, Flags: 64, Prefix: "MIX:", Spare: 3})
		r.Phase("ID.URN on every listed id", "complete for the listed ids", func() {
			r.Serial(func(w *mc.W) {
				for _, custom := range []bool{false, true} {
					setupURN(urnArg{Custom: custom})
					for i := range ids {
						w.Point()
						w.NonTrivial()
						pu.Do(w, urnArg{i, custom})
					}
				}
				libdefaults.UU()
			})
		})
	})
}
