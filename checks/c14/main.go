// C14: version comparison is a coherent order and next/latest respect it.
package main

import (
	"fmt"
	"strings"

	"go.lstv.dev/util/sem"
	"verif/firstuse"
	"verif/libdefaults"
	"verif/mc"
	"verif/oracle"
)

func reset() {
	curLimit = 1024
	libdefaults.Sem()
}

type pairArg struct {
	A string `json:"a"`
	B string `json:"b"`
}

func probeLaws(p pairArg) (string, string) {
	va, vb := sem.New(3, 1, 4, p.A), sem.New(3, 1, 4, p.B)
	ab, ba := va.Compare(vb), vb.Compare(va)
	if ab < -1 || ab > 1 {
		return "range", fmt.Sprintf("%s Compare %s = %d", va, vb, ab)
	}
	if ab != -ba {
		return "antisymmetry", fmt.Sprintf("%s Compare %s = %d but reverse = %d", va, vb, ab, ba)
	}
	if aa := va.Compare(va); aa != 0 {
		return "reflexivity", fmt.Sprintf("%s Compare itself = %d", va, aa)
	}
	if g := sem.DefaultComparePreRelease(p.A, p.B); g != ab {
		return "prerelease_vs_ver", fmt.Sprintf("DefaultComparePreRelease(%q,%q) = %d, Ver.Compare = %d", p.A, p.B, g, ab)
	}
	if g := sem.DefaultComparePreRelease([]byte(p.A), []byte(p.B)); g != ab {
		return "bytes_vs_string", fmt.Sprintf("DefaultComparePreRelease bytes (%q,%q) = %d, strings %d", p.A, p.B, g, ab)
	}
	// build metadata never matters
	for _, bb := range [][2]string{{"x", ""}, {"", "001"}, {"b.1", "b.2"}, {"zz", "0"}} {
		wa, wb := sem.New(3, 1, 4, p.A, bb[0]), sem.New(3, 1, 4, p.B, bb[1])
		if g := wa.Compare(wb); g != ab {
			return "build_sensitive", fmt.Sprintf("%s Compare %s = %d but without build = %d", wa, wb, g, ab)
		}
	}
	if p.A == p.B {
		wa, wb := sem.New(3, 1, 4, p.A, "one"), sem.New(3, 1, 4, p.B, "two")
		if g := wa.Compare(wb); g != 0 {
			return "equal_core_and_prerelease_not_zero", fmt.Sprintf("%s Compare %s = %d", wa, wb, g)
		}
	}
	// Latest returns one of its arguments, never the lower one
	wa, wb := sem.New(3, 1, 4, p.A, "one"), sem.New(3, 1, 4, p.B, "two")
	l := wa.Latest(wb)
	if l != wa && l != wb {
		return "latest_not_an_argument", fmt.Sprintf("%s Latest %s = %s", wa, wb, l)
	}
	if ab < 0 && l != wb || ab > 0 && l != wa {
		return "latest_is_lower", fmt.Sprintf("%s Latest %s = %s although Compare = %d", wa, wb, l, ab)
	}
	return "", ""
}

type coreArg struct {
	A [3]uint64 `json:"a"`
	B [3]uint64 `json:"b"`
}

func probeCoreLaws(p coreArg) (string, string) {
	va := sem.Ver{Major: p.A[0], Minor: p.A[1], Patch: p.A[2]}
	vb := sem.Ver{Major: p.B[0], Minor: p.B[1], Patch: p.B[2], Build: "b"}
	ab, ba := va.Compare(vb), vb.Compare(va)
	if ab < -1 || ab > 1 || ab != -ba {
		return "antisymmetry", fmt.Sprintf("%s Compare %s = %d but reverse = %d", va, vb, ab, ba)
	}
	if (ab == 0) != (p.A == p.B) {
		return "equal_core_and_prerelease_not_zero", fmt.Sprintf("%s Compare %s = %d", va, vb, ab)
	}
	l := va.Latest(vb)
	if l != va && l != vb || ab < 0 && l != vb || ab > 0 && l != va {
		return "latest_is_lower", fmt.Sprintf("%s Latest %s = %s although Compare = %d", va, vb, l, ab)
	}
	if c, err := sem.Compare(va.String(), vb.String()); err != nil || c != ab {
		return "helper_vs_parsed_values", fmt.Sprintf("Compare(%q,%q) = %d, %v but comparing the values gives %d", va.String(), vb.String(), c, err, ab)
	}
	// the same cores with a pre-release on one or both sides (a release ranks above its own pre-releases, whatever the core)
	for _, pp := range [][2]string{{"", "alpha"}, {"alpha", ""}, {"alpha", "beta"}, {"rc.1", "rc.1"}} {
		wa := sem.Ver{Major: p.A[0], Minor: p.A[1], Patch: p.A[2], PreRelease: pp[0]}
		wb := sem.Ver{Major: p.B[0], Minor: p.B[1], Patch: p.B[2], PreRelease: pp[1]}
		x, y := wa.Compare(wb), wb.Compare(wa)
		if x != -y || x < -1 || x > 1 {
			return "antisymmetry", fmt.Sprintf("%s Compare %s = %d but reverse = %d", wa, wb, x, y)
		}
		l, l2 := wa.Latest(wb), wb.Latest(wa)
		if x < 0 && (l != wb || l2 != wb) || x > 0 && (l != wa || l2 != wa) || l != wa && l != wb {
			return "latest_is_lower", fmt.Sprintf("%s Latest %s = %s, reverse %s, although Compare = %d", wa, wb, l, l2, x)
		}
		if ls, err := sem.Latest(wa.String(), wb.StringTag()); err != nil || ls != l {
			return "latest_vs_parsed_values", fmt.Sprintf("Latest(%q,%q) = %s, %v but Latest of the values gives %s", wa.String(), wb.StringTag(), ls, err, l)
		}
	}
	return "", ""
}

// history of depth 2: a comparison must not depend on which comparison was made before it
type histArg struct {
	First  pairArg `json:"first"`
	Second pairArg `json:"second"`
}

func probeHist(h histArg) (string, string) {
	_ = sem.DefaultComparePreRelease(h.First.A, h.First.B)
	_ = sem.New(3, 1, 4, h.First.A).Compare(sem.New(3, 1, 4, h.First.B))
	if k, d := probeLaws(h.Second); k != "" {
		return "after_previous_call:" + k, fmt.Sprintf("after comparing (%q, %q): %s", h.First.A, h.First.B, d)
	}
	return "", ""
}

type helperArg struct {
	A      mc.Bin `json:"a"`
	B      mc.Bin `json:"b"`
	Custom int    `json:"custom_compare_prerelease,omitempty"` // 0 default; 1 reversed order; 2 plain string order (installed as sem.ComparePreRelease)
	Limit  *int   `json:"max_input_length,omitempty"`          // nil = default 1024
}

var curLimit = 1024

type namedStr string
type namedBytes []byte

func setupHelpers(a helperArg) {
	curLimit = libdefaults.SemMaxInputLength // default configuration: whatever the library starts with
	if a.Limit != nil {
		curLimit = *a.Limit
	}
	sem.MaxInputLength = curLimit
	switch a.Custom {
	case 1:
		sem.ComparePreRelease = func(x, y string) int { return -sem.DefaultComparePreRelease(x, y) }
	case 2:
		sem.ComparePreRelease = func(x, y string) int { return strings.Compare(x, y) }
	default:
		sem.ComparePreRelease = sem.DefaultComparePreRelease[string, string]
	}
}

// validity of a text for a helper by the reference recogniser: policy 0 optional v, 1 forbidden, 2 required
func validFor(s string, policy int) bool {
	if s == "" || curLimit != 0 && len(s) > curLimit {
		return false
	}
	tag := s[0] == 'v'
	if tag && policy == 1 || !tag && policy == 2 {
		return false
	}
	if tag {
		s = s[1:]
	}
	sv := oracle.SemverParse(s)
	return sv.OK && sv.Overflow == 0
}

func probeHelpers(p helperArg) (string, string) {
	a, b := string(p.A), string(p.B)
	type h struct {
		name   string
		policy int
		cmp    func() (int, error)
		latest func() (sem.Ver, error)
		parse  func(string) (sem.Ver, error)
	}
	hs := []h{
		{"Compare/Latest", 0, func() (int, error) { return sem.Compare(a, b) }, func() (sem.Ver, error) { return sem.Latest(a, b) }, sem.Parse[string]},
		{"Compare/Latest(bytes)", 0, func() (int, error) { return sem.Compare([]byte(a), []byte(b)) }, func() (sem.Ver, error) { return sem.Latest([]byte(a), b) }, sem.Parse[string]},
		{"CompareVersion/LatestVersion", 1, func() (int, error) { return sem.CompareVersion[string, string](a, b) }, func() (sem.Ver, error) { return sem.LatestVersion(a, b) }, sem.ParseVersion[string]},
		{"CompareTag/LatestTag", 2, func() (int, error) { return sem.CompareTag(a, b) }, func() (sem.Ver, error) { return sem.LatestTag(a, []byte(b)) }, sem.ParseTag[string]},
		// every remaining instantiation of the operand types: both []byte, []byte then string, named types
		{"Compare/Latest(bytes,bytes)", 0, func() (int, error) { return sem.Compare([]byte(a), []byte(b)) }, func() (sem.Ver, error) { return sem.Latest([]byte(a), []byte(b)) }, sem.Parse[string]},
		{"CompareTag/LatestTag(bytes,bytes)", 2, func() (int, error) { return sem.CompareTag([]byte(a), []byte(b)) }, func() (sem.Ver, error) { return sem.LatestTag([]byte(a), []byte(b)) }, sem.ParseTag[string]},
		{"LatestVersion(bytes,bytes)", 1, func() (int, error) { return sem.CompareVersion[string, string](a, b) }, func() (sem.Ver, error) { return sem.LatestVersion([]byte(a), []byte(b)) }, sem.ParseVersion[string]},
		{"Compare/Latest(named,named)", 0, func() (int, error) { return sem.Compare(namedStr(a), namedBytes(b)) }, func() (sem.Ver, error) { return sem.Latest(namedBytes(a), namedStr(b)) }, sem.Parse[string]},
		{"LatestVersion/LatestTag(string,bytes)", 1, func() (int, error) { return sem.CompareVersion[string, string](a, b) }, func() (sem.Ver, error) { return sem.LatestVersion(a, []byte(b)) }, sem.ParseVersion[string]},
	}
	for _, x := range hs {
		wantErr := !validFor(a, x.policy) || !validFor(b, x.policy)
		c, err := x.cmp()
		l, lerr := x.latest()
		if wantErr {
			if err == nil || lerr == nil {
				return "invalid_text_no_error", fmt.Sprintf("%s(%q, %q) = %d,%v / %s,%v although a text is invalid for this helper", x.name, a, b, c, err, l, lerr)
			}
			continue
		}
		if err != nil || lerr != nil {
			return "valid_text_error", fmt.Sprintf("%s(%q, %q): %v / %v", x.name, a, b, err, lerr)
		}
		va, e1 := x.parse(a)
		vb, e2 := x.parse(b)
		if e1 != nil || e2 != nil {
			return "valid_text_error", fmt.Sprintf("%s: parse(%q)=%v parse(%q)=%v", x.name, a, e1, b, e2)
		}
		if c != va.Compare(vb) {
			return "helper_vs_parsed_values", fmt.Sprintf("%s(%q, %q) = %d but comparing the parsed values gives %d", x.name, a, b, c, va.Compare(vb))
		}
		if l != va.Latest(vb) {
			return "latest_vs_parsed_values", fmt.Sprintf("%s(%q, %q) = %s but Latest of the parsed values gives %s", x.name, a, b, l, va.Latest(vb))
		}
		if l != va && l != vb {
			return "latest_not_an_argument", fmt.Sprintf("%s(%q, %q) = %s", x.name, a, b, l)
		}
	}
	return "", ""
}

type nextArg struct {
	Core  [3]uint64 `json:"core"`
	Pre   string    `json:"pre"`
	Build string    `json:"build"`
}

const maxU = ^uint64(0)

func probeNext(a nextArg) (string, string) {
	v := sem.Ver{Major: a.Core[0], Minor: a.Core[1], Patch: a.Core[2], PreRelease: a.Pre, Build: a.Build}
	call := func(f func() sem.Ver) (r sem.Ver, panicked bool) {
		defer func() {
			if recover() != nil {
				panicked = true
			}
		}()
		return f(), false
	}
	for i, f := range []func() sem.Ver{v.NextMajor, v.NextMinor, v.NextPatch} {
		name := []string{"NextMajor", "NextMinor", "NextPatch"}[i]
		n, p := call(f)
		wantPanic := a.Core[i] == maxU
		if p != wantPanic {
			return "next_panic", fmt.Sprintf("%s.%s() panicked=%v, expected %v", v, name, p, wantPanic)
		}
		if p {
			continue
		}
		var want sem.Ver
		switch i {
		case 0:
			want = sem.Ver{Major: a.Core[0] + 1}
		case 1:
			want = sem.Ver{Major: a.Core[0], Minor: a.Core[1] + 1}
		default:
			want = sem.Ver{Major: a.Core[0], Minor: a.Core[1], Patch: a.Core[2] + 1}
		}
		if n.PreRelease != "" || n.Build != "" {
			return "next_not_plain_release", fmt.Sprintf("%s.%s() = %s", v, name, n)
		}
		if n != want {
			return "next_value", fmt.Sprintf("%s.%s() = %s want %s", v, name, n, want)
		}
		if n.Compare(v) != 1 || v.Compare(n) != -1 || v.Latest(n) != n || n.Latest(v) != n {
			return "next_not_above_receiver", fmt.Sprintf("%s.%s() = %s; Compare = %d, reverse %d", v, name, n, n.Compare(v), v.Compare(n))
		}
	}
	return "", ""
}

func main() {
	mc.Main("C14", "all ordered pairs over the pre-release universe (no exclusion) plus mixed alphanumeric identifiers; all ordered pairs of a text set (valid/invalid for each helper) through every string helper; Next* on every version of the universe x boundary cores; "+
		"non-trivial = pair of different non-empty pre-releases / pair of texts both valid for at least one helper", func(r *mc.Run) {
		firstuse.Phase(r, map[string][]string{"sem": {"compare", "next"}})
		r.Reset = reset
		reset()
		pL := mc.NewProbe(r, "laws", nil, probeLaws)
		pH := mc.NewProbe(r, "helpers", setupHelpers, probeHelpers)
		pN := mc.NewProbe(r, "next", nil, probeNext)
		r.Assume("laws are judged on the implementation's own results (range, reflexivity, antisymmetry, build-insensitivity, Latest consistent with Compare); 'invalid for that helper' is decided by the reference recogniser")
		L := 4
		if !r.Quick() {
			L = 5
		}
		U := append([]string{""}, oracle.PreReleases("0129aB-.", L)...)
		mixed := []string{"a01", "a1", "a0x", "rc10", "rc9", "a001", "a10", "a100", "a11", "rc.9", "rc.10", "a1b", "a01b", "x-1", "x-01", "x-10", "1a", "01a", "1a1", "1a01", "alpha", "alpha1", "alpha01.1", "alpha1.01a", "a.b.c.d.e", "a.b.c.d.e.f", "0.0.0.0", "a1.2", "a01.3", "a-", "a-0", "a-00", "-", "--", "-0", "-00",
			"18446744073709551615", "18446744073709551616", "18446744073709551617", "99999999999999999999", "100000000000000000000", "a18446744073709551616", "a18446744073709551617", "1.18446744073709551616", "1.18446744073709551617", "x.99999999999999999999999999"}
		U = append(U, mixed...)
		r.Extra["prerelease_universe"] = len(U)
		r.Phase(fmt.Sprintf("laws on all %d^2 ordered pairs (valid pre-releases of length <= %d + %d mixed identifiers)", len(U), L, len(mixed)), "complete", func() {
			r.Parallel(int64(len(U)), 1, func(w *mc.W, i int64) {
				for j := range U {
					w.Point()
					if U[i] != "" && U[j] != "" && i != int64(j) {
						w.NonTrivial()
					}
					pL.Do(w, pairArg{U[i], U[j]})
				}
				w.Outcome("row")
			})
			r.Serial(func(w *mc.W) { w.Outcome("laws") })
		})
		r.Sample("laws", pairArg{"a01", "a1"})
		pC := mc.NewProbe(r, "core_laws", nil, probeCoreLaws)
		cn := []uint64{0, 1, 5, 1<<63 - 1, 1 << 63, 1<<63 + 5, maxU - 1, maxU}
		r.Phase(fmt.Sprintf("laws on all ordered pairs of the %d^3 cores over {0,1,5,2^63-1,2^63,2^63+5,2^64-2,2^64-1}", len(cn)), "complete", func() {
			n := int64(len(cn) * len(cn) * len(cn))
			core := func(i int64) [3]uint64 { return [3]uint64{cn[i%8], cn[i/8%8], cn[i/64]} }
			r.Parallel(n, 1, func(w *mc.W, i int64) {
				for j := int64(0); j < n; j++ {
					w.Point()
					w.NonTrivial()
					pC.Do(w, coreArg{core(i), core(j)})
				}
			})
		})
		pHi := mc.NewProbe(r, "history2", nil, probeHist)
		r.Phase("serial: all histories of two comparisons over 14 pre-releases (the second comparison is judged by the laws)", "complete for depth 2 over the listed pre-releases", func() {
			hs := []string{"", "1", "2", "3", "2.1", "1.3", "alpha", "beta", "rc", "beta.alpha", "alpha.rc", "a.b.c", "a.b", "b.c"}
			r.Serial(func(w *mc.W) {
				for _, a := range hs {
					for _, b := range hs {
						for _, c := range hs {
							for _, d := range hs {
								w.Point()
								pHi.Do(w, histArg{pairArg{a, b}, pairArg{c, d}})
							}
						}
					}
				}
			})
		})
		var texts []string
		for _, pre := range append([]string{"", "a", "a1", "a01", "1", "0", "01", "1.a", "a.1", "rc9", "rc10", "-", "a..b", "é"}, oracle.PreReleases("01a-.", 2)...) {
			for _, core := range []string{"1.0.0", "v1.0.0", "0.0.1", "v2.0.0"} {
				t := core
				if pre != "" {
					t += "-" + pre
				}
				texts = append(texts, t)
			}
		}
		texts = append(texts, "", "v", "1", "1.0", "v1.0", "1.0.0-", "1.0.0+", "1.0.0+b", "v1.0.0+b", "01.0.0", "1.0.0 ", " 1.0.0", "V1.0.0", "vv1.0.0", "18446744073709551615.0.0", "18446744073709551616.0.0", "v0.0.18446744073709551616", "1.0.0\n", "1.0.0-a+b-c.d")
		r.Phase(fmt.Sprintf("string helpers on all %d^2 ordered pairs of texts (valid and invalid for each helper)", len(texts)), "complete", func() {
			r.Parallel(int64(len(texts)), 1, func(w *mc.W, i int64) {
				for j := range texts {
					w.Point()
					if validFor(texts[i], 0) && validFor(texts[j], 0) {
						w.NonTrivial()
						w.Outcome("both valid")
					} else {
						w.Outcome("some invalid")
					}
					pH.Do(w, helperArg{A: mc.Bin(texts[i]), B: mc.Bin(texts[j])})
				}
			})
		})
		r.Sample("helpers", helperArg{A: "v1.0.0-a1", B: "1.0.0-a01"})
		for _, ml := range []int{0, 2000, 12} {
			ml := ml
			r.Phase(fmt.Sprintf("string helpers with sem.MaxInputLength=%d: errors exactly when a text is invalid for the helper (or longer than a non-zero limit)", ml), "complete over the text set", func() {
				sem.MaxInputLength = ml
				curLimit = ml
				r.Parallel(int64(len(texts)), 1, func(w *mc.W, i int64) {
					for j := range texts {
						w.Point()
						pH.Do(w, helperArg{A: mc.Bin(texts[i]), B: mc.Bin(texts[j]), Limit: &ml})
					}
				})
				reset()
			})
		}
		// texts whose length is exactly limit-1, limit, limit+1, limit+2 (with and without tag): the limit applies to the
		// text as given, whatever the helper strips from it
		for _, ml := range []int{7, 8, 9, 16} {
			ml := ml
			r.Phase(fmt.Sprintf("string helpers with sem.MaxInputLength=%d: all pairs of valid-shaped texts of length limit-1..limit+2 (tag and version form, pre-release or build tail)", ml), "complete over the text set", func() {
				var ts []string
				for l := ml - 1; l <= ml+2; l++ {
					for _, head := range []string{"v1.0.0-", "1.0.0-", "v1.0.0+", "1.0.0+", "v0.0.", "0.0."} {
						if l > len(head) {
							fill := "a"
							if strings.HasSuffix(head, ".") {
								fill = "1"
							}
							ts = append(ts, head+strings.Repeat(fill, l-len(head)))
						}
					}
				}
				ts = append(ts, "v1.0.0", "1.0.0")
				sem.MaxInputLength = ml
				curLimit = ml
				r.Parallel(int64(len(ts)), 1, func(w *mc.W, i int64) {
					for j := range ts {
						w.Point()
						w.NonTrivial()
						pH.Do(w, helperArg{A: mc.Bin(ts[i]), B: mc.Bin(ts[j]), Limit: &ml})
					}
				})
				reset()
			})
		}
		// long texts: two texts that agree on their first L-1 bytes and differ (or turn invalid) only in byte L, for every L
		for _, ml := range []int{1024, 0} {
			ml := ml
			r.Phase(fmt.Sprintf("string helpers with sem.MaxInputLength=%d: texts of every length L in 10..260 that differ from each other only in their last byte (a, b, 1, an invalid byte; tag and version form; pre-release, build and patch tail), all ordered pairs per L", ml), "complete over the text set", func() {
				sem.MaxInputLength = ml
				curLimit = ml
				r.Parallel(251, 1, func(w *mc.W, i int64) {
					l := int(i) + 10
					var ts []string
					for _, head := range []string{"v1.0.0-", "1.0.0-", "1.0.0-1+", "v2.3."} {
						fill := "a"
						lasts := []string{"a", "b", "1", "!"}
						if strings.HasSuffix(head, ".") {
							fill, lasts = "1", []string{"1", "2", "0", "x"}
						}
						for _, last := range lasts {
							ts = append(ts, head+strings.Repeat(fill, l-len(head)-1)+last)
						}
					}
					for _, a := range ts {
						for _, b := range ts {
							w.Point()
							w.NonTrivial()
							pH.Do(w, helperArg{A: mc.Bin(a), B: mc.Bin(b), Limit: &ml})
						}
					}
				})
				reset()
			})
		}
		for custom := 1; custom <= 2; custom++ {
			custom := custom
			r.Phase(fmt.Sprintf("string helpers with a user-installed sem.ComparePreRelease (#%d): every helper must still return what comparing the parsed values returns", custom), "complete over the text set", func() {
				setupHelpers(helperArg{Custom: custom})
				r.Parallel(int64(len(texts)), 1, func(w *mc.W, i int64) {
					for j := range texts {
						w.Point()
						pH.Do(w, helperArg{A: mc.Bin(texts[i]), B: mc.Bin(texts[j]), Custom: custom})
					}
				})
				reset()
			})
		}
		nums := []uint64{0, 1, 9, 1 << 32, 1<<63 - 1, 1 << 63, maxU - 1, maxU}
		r.Phase(fmt.Sprintf("NextMajor/NextMinor/NextPatch on %d^3 cores x every pre-release of the universe x 2 builds", len(nums)), "complete", func() {
			n := int64(len(nums))
			r.Parallel(n*n*n, 1, func(w *mc.W, i int64) {
				core := [3]uint64{nums[i%n], nums[i/n%n], nums[i/n/n]}
				for k, pre := range U {
					w.Point()
					w.NonTrivial()
					pN.Do(w, nextArg{core, pre, []string{"", "b.1"}[k%2]})
				}
				w.Outcome("next")
			})
		})
		r.Sample("next", nextArg{[3]uint64{1, maxU, 0}, "rc.1", "b"})
	})
}
