// C04: a size survives every marshal form and configuration.
package main

import (
	"encoding/json"
	"fmt"

	"go.lstv.dev/util/size"
	"verif/firstuse"
	"verif/libdefaults"
	"verif/mc"
	"verif/oracle"
)

type arg struct {
	S   uint64 `json:"size"`
	Cfg int    `json:"cfg"` // bit0 DisableMarshalTextUnit, bit1 DisableMarshalJSONStringForm, bit2 DisableMarshalJSONObjectForm
}

type box struct {
	A size.Size            `json:"a"`
	P *size.Size           `json:"p"`
	L []size.Size          `json:"l"`
	M map[string]size.Size `json:"m"`
	N *size.Size           `json:"n"`
}

func reset() {
	libdefaults.Size()
}

func setup(a arg) {
	size.DisableMarshalTextUnit = a.Cfg&1 != 0
	size.DisableMarshalJSONStringForm = a.Cfg&2 != 0
	size.DisableMarshalJSONObjectForm = a.Cfg&4 != 0
}

func probe(a arg) (string, string) {
	s := size.Size(a.S)
	wv, wu := oracle.Shorten(a.S)
	textWant := oracle.Decimal(wv) + wu
	if a.Cfg&1 != 0 {
		textWant = oracle.Decimal(a.S)
	}
	// text
	tb, err := s.MarshalText()
	if err != nil || string(tb) != textWant {
		return "marshaltext_form", fmt.Sprintf("MarshalText(%d) cfg=%d = %q, %v; want %q", a.S, a.Cfg, tb, err, textWant)
	}
	for _, pre := range []size.Size{0, 4242} {
		u := pre
		if err := u.UnmarshalText(append([]byte(nil), tb...)); err != nil || u != s {
			return "text_roundtrip", fmt.Sprintf("UnmarshalText(MarshalText(%d)=%q) cfg=%d = %d, %v", a.S, tb, a.Cfg, uint64(u), err)
		}
	}
	// JSON standalone
	var jsonWant string
	switch {
	case a.Cfg&4 == 0:
		jsonWant = `{"value":` + oracle.Decimal(wv) + `,"unit":"` + wu + `"}`
	case a.Cfg&2 == 0:
		jsonWant = `"` + textWant + `"`
	default:
		jsonWant = oracle.Decimal(a.S)
	}
	jb, err := s.MarshalJSON()
	if err != nil || string(jb) != jsonWant {
		return "marshaljson_form", fmt.Sprintf("MarshalJSON(%d) cfg=%d = %s, %v; want %s", a.S, a.Cfg, jb, err, jsonWant)
	}
	for _, pre := range []size.Size{0, 4242} {
		u := pre
		if err := u.UnmarshalJSON(append([]byte(nil), jb...)); err != nil || u != s {
			return "json_roundtrip", fmt.Sprintf("UnmarshalJSON(MarshalJSON(%d)=%s) cfg=%d = %d, %v", a.S, jb, a.Cfg, uint64(u), err)
		}
	}
	// nested in encoding/json documents
	b := box{A: s, P: &s, L: []size.Size{s, 0, s}, M: map[string]size.Size{"k": s, "z": 0}}
	doc, err := json.Marshal(b)
	if err != nil {
		return "json_marshal_containers", fmt.Sprintf("json.Marshal(box{%d}) cfg=%d: %v", a.S, a.Cfg, err)
	}
	if !json.Valid(doc) {
		return "json_marshal_containers_invalid", fmt.Sprintf("json.Marshal(box{%d}) = %s", a.S, doc)
	}
	var got box
	if err := json.Unmarshal(doc, &got); err != nil {
		return "json_unmarshal_containers", fmt.Sprintf("json.Unmarshal(%s) cfg=%d: %v", doc, a.Cfg, err)
	}
	if got.A != s || got.P == nil || *got.P != s || len(got.L) != 3 || got.L[0] != s || got.L[1] != 0 || got.L[2] != s || len(got.M) != 2 || got.M["k"] != s || got.M["z"] != 0 || got.N != nil {
		return "json_containers_value", fmt.Sprintf("json round trip of box{%d} cfg=%d through %s gave %+v", a.S, a.Cfg, doc, got)
	}
	// indented document (whitespace inside the object / around values)
	ind, err := json.MarshalIndent(map[string]any{"x": s, "y": []size.Size{s}}, " ", "\t")
	if err != nil {
		return "json_marshal_indent", err.Error()
	}
	var gi struct {
		X size.Size
		Y []size.Size
	}
	if err := json.Unmarshal(ind, &gi); err != nil || gi.X != s || len(gi.Y) != 1 || gi.Y[0] != s {
		return "json_indent_roundtrip", fmt.Sprintf("indented round trip of %d cfg=%d through %s gave %+v, %v", a.S, a.Cfg, ind, gi, err)
	}
	if a.Cfg != 0 {
		return "", ""
	}
	// string renderings back through the parser (rule 0)
	for _, txt := range []string{s.String(), s.PrettyString()} {
		g, err := size.DefaultParser(txt, 0)
		if err != nil || g != s {
			return "string_rendering_parse", fmt.Sprintf("DefaultParser(%q, 0) = %d, %v; want %d", txt, uint64(g), err, a.S)
		}
		g, err = size.DefaultParser([]byte(txt), 0)
		if err != nil || g != s {
			return "string_rendering_parse_bytes", fmt.Sprintf("DefaultParser([]byte(%q), 0) = %d, %v; want %d", txt, uint64(g), err, a.S)
		}
	}
	return "", ""
}

type flightArg struct {
	A uint64 `json:"a"`
	B uint64 `json:"b"`
}

// a marshalled text handed out by one call must still read the same after a later call
func probeFlight(p flightArg) (string, string) {
	a, b := size.Size(p.A), size.Size(p.B)
	ta, _ := a.MarshalText()
	ja, _ := a.MarshalJSON()
	tb, _ := b.MarshalText()
	jb, _ := b.MarshalJSON()
	var ga, gb, ha, hb size.Size
	e1, e2, e3, e4 := ga.UnmarshalText(ta), gb.UnmarshalText(tb), ha.UnmarshalJSON(ja), hb.UnmarshalJSON(jb)
	if e1 != nil || e2 != nil || e3 != nil || e4 != nil || ga != a || gb != b || ha != a || hb != b {
		return "text_overwritten_by_later_call", fmt.Sprintf("texts of %d and %d kept across later marshal calls read %q %s %q %s and unmarshal to %d %d %d %d (%v %v %v %v)", p.A, p.B, ta, ja, tb, jb, uint64(ga), uint64(gb), uint64(ha), uint64(hb), e1, e2, e3, e4)
	}
	// the caller may write into a returned slice: later calls must not be affected by that
	defer mc.Scribble(ta, ja, tb, jb)()
	ta2, _ := a.MarshalText()
	jb2, _ := b.MarshalJSON()
	var g2, h2 size.Size
	if e1, e2 := g2.UnmarshalText(ta2), h2.UnmarshalJSON(jb2); e1 != nil || e2 != nil || g2 != a || h2 != b {
		return "text_affected_by_caller_writing_into_earlier_result", fmt.Sprintf("after the caller overwrote earlier results: MarshalText(%d) = %q, MarshalJSON(%d) = %s (%v, %v)", p.A, ta2, p.B, jb2, e1, e2)
	}
	return "", ""
}

// history of depth 2: a rendering/marshalling followed by another one; the second text must parse back to the second size
type histArg struct {
	S1, S2 uint64
	P1, P2 int // 0 String, 1 PrettyString, 2 MarshalText, 3 MarshalJSON
}

func renderVia(s uint64, p int) (string, bool) {
	switch p {
	case 0:
		return size.Size(s).String(), false
	case 1:
		return size.Size(s).PrettyString(), false
	case 2:
		b, _ := size.Size(s).MarshalText()
		return string(b), false
	}
	b, _ := size.Size(s).MarshalJSON()
	return string(b), true
}

func probeHist(h histArg) (string, string) {
	_, _ = renderVia(h.S1, h.P1)
	txt, isJSON := renderVia(h.S2, h.P2)
	var g size.Size
	var err error
	if isJSON {
		err = g.UnmarshalJSON([]byte(txt))
	} else {
		g, err = size.DefaultParser(txt, 0)
	}
	if err != nil || uint64(g) != h.S2 {
		return "after_previous_call:render_parse", fmt.Sprintf("after rendering %d (path %d), %d renders (path %d) as %q, which reads back as %d, %v", h.S1, h.P1, h.S2, h.P2, txt, uint64(g), err)
	}
	return "", ""
}

func main() {
	mc.Main("C04", "every value of the stated alphabet x all 8 Disable* configurations x {MarshalText->UnmarshalText, MarshalJSON->UnmarshalJSON, json.Marshal->json.Unmarshal of struct/pointer/slice/map containers, indented documents, String/PrettyString -> DefaultParser}; "+
		"non-trivial = value is shortened to a unit above B or has more than three digits", func(r *mc.Run) {
		firstuse.Phase(r, map[string][]string{"size": {"marshal", "parse", "json", "format"}})
		r.Reset = reset
		reset()
		p := mc.NewProbe(r, "marshal_roundtrip", setup, probe)
		r.Assume("expected marshalled forms are computed from the reference Shorten (math/big) and the documented switch semantics; values outside the stated alphabet are not covered")
		dense, neigh := uint64(1<<17), uint64(500)
		if !r.Quick() {
			dense, neigh = 1<<20, 1000
		}
		vals := oracle.SizeValues(dense, neigh)
		r.Extra["value_alphabet_size"] = len(vals)
		pfl := mc.NewProbe(r, "two_results_in_flight", nil, probeFlight)
		r.Phase("serial: two marshalled texts in flight (a result must survive later calls), all ordered pairs of 12 sizes", "complete for the listed sizes", func() {
			r.Serial(func(w *mc.W) {
				vs := []uint64{0, 1, 1023, 1024, 1025, 1234567, 1 << 20, 5 << 30, 123456789012, 1 << 60, 18446744073709551615, 999 << 40}
				for _, a := range vs {
					for _, b := range vs {
						w.Point()
						pfl.Do(w, flightArg{a, b})
					}
				}
			})
		})
		ph := mc.NewProbe(r, "history2", nil, probeHist)
		r.Phase("serial: all histories of two renderings (String, PrettyString, MarshalText, MarshalJSON) over 14 sizes incl. pairs with the same shortened number", "complete for depth 2 over the listed sizes", func() {
			hs := []uint64{0, 1, 3, 3072, 3 << 20, 5 << 20, 5 << 30, 1023, 1023 << 10, 1024, 1234567, 1234567 << 10, 1 << 60, 18446744073709551615}
			r.Serial(func(w *mc.W) {
				for _, a := range hs {
					for pa := 0; pa < 4; pa++ {
						for _, b := range hs {
							for pb := 0; pb < 4; pb++ {
								w.Point()
								ph.Do(w, histArg{a, b, pa, pb})
							}
						}
					}
				}
			})
		})
		for cfg := 0; cfg < 8; cfg++ {
			cfg := cfg
			r.Phase(fmt.Sprintf("%d values under DisableMarshalTextUnit=%v DisableMarshalJSONStringForm=%v DisableMarshalJSONObjectForm=%v", len(vals), cfg&1 != 0, cfg&2 != 0, cfg&4 != 0), "complete over the value alphabet", func() {
				setup(arg{Cfg: cfg})
				r.Parallel(int64(len(vals)), 256, func(w *mc.W, i int64) {
					w.Point()
					v, u := oracle.Shorten(vals[i])
					if u != "B" || v > 999 {
						w.NonTrivial()
					}
					if i%1024 == 0 {
						w.Outcome(fmt.Sprintf("cfg=%d", cfg))
					}
					p.Do(w, arg{vals[i], cfg})
				})
				reset()
			})
		}
		r.Sample("value", arg{123456 << 30, 0})
		r.Sample("value", arg{18446744073709551615, 5})
	})
}
