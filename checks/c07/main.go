// C07: date ordering and arithmetic agree with the calendar.
package main

import (
	"fmt"
	"math"
	"time"
	_ "time/tzdata"

	"go.lstv.dev/util/date"
	"verif/firstuse"
	"verif/mc"
	"verif/oracle"
)

type ymd struct {
	Y int64 `json:"y"`
	M int   `json:"m"`
	D int   `json:"d"`
}

type zoneArg struct {
	A    ymd    `json:"date"`
	Zone string `json:"time_local"`
}

var defaultLocal = time.Local

func setupZone(a zoneArg) {
	time.Local = defaultLocal
	if loc, err := time.LoadLocation(a.Zone); err == nil && a.Zone != "" {
		time.Local = loc
	}
}

func probeZone(a zoneArg) (string, string) {
	if k, d := probeAdjacent(a.A); k != "" {
		return k, "with time.Local = " + a.Zone + ": " + d
	}
	nx := fromOrd(a.A.ord() + 40)
	if k, d := probePair(pairArg{a.A, nx}); k != "" {
		return k, "with time.Local = " + a.Zone + ": " + d
	}
	return "", ""
}

func (a ymd) date() date.Date { return date.New(int(a.Y), date.Month(a.M), a.D) }
func (a ymd) ord() int64      { return oracle.Ordinal(a.Y, a.M, a.D) }
func fromOrd(n int64) ymd     { y, m, d := oracle.FromOrdinal(n); return ymd{y, m, d} }
func is(d date.Date, a ymd) bool {
	y, m, dd := d.Date()
	return int64(y) == a.Y && int(m) == a.M && dd == a.D
}

const day = 24 * time.Hour
const unixEpochOrdinal = 719163 // Ordinal(1970,1,1)

func probeAdjacent(a ymd) (string, string) {
	d := a.date()
	if !is(d, a) {
		return "new_components", fmt.Sprintf("New(%v).Date() = %v", a, d)
	}
	nx := fromOrd(a.ord() + 1)
	e := nx.date()
	if !is(e, nx) {
		return "new_components", fmt.Sprintf("New(%v).Date() = %v", nx, e)
	}
	if !(d.Before(e) && !d.After(e) && !d.Equal(e) && e.After(d) && !e.Before(d) && !e.Equal(d) && d.Equal(d) && !d.Before(d) && !d.After(d)) {
		return "order_adjacent", fmt.Sprintf("d=%v e=%v: d.Before(e)=%v d.After(e)=%v d.Equal(e)=%v e.After(d)=%v e.Before(d)=%v d.Equal(d)=%v", d, e, d.Before(e), d.After(e), d.Equal(e), e.After(d), e.Before(d), d.Equal(d))
	}
	if e.Sub(d) != day || d.Sub(e) != -day || d.Sub(d) != 0 {
		return "sub_adjacent", fmt.Sprintf("%v.Sub(%v) = %v, reverse %v", e, d, e.Sub(d), d.Sub(e))
	}
	if e.DaysBetween(d) != 1 || d.DaysBetween(e) != -1 || d.DaysBetween(d) != 0 {
		return "daysbetween_adjacent", fmt.Sprintf("%v.DaysBetween(%v) = %d, reverse %d", e, d, e.DaysBetween(d), d.DaysBetween(e))
	}
	if g := d.Add(0, 0, 1); g != e {
		return "add_one_day", fmt.Sprintf("%v.Add(0,0,1) = %v want %v", d, g, e)
	}
	if g := e.Add(0, 0, -1); g != d {
		return "add_minus_one_day", fmt.Sprintf("%v.Add(0,0,-1) = %v want %v", e, g, d)
	}
	if g := d.AddDuration(day); g != e {
		return "addduration_24h", fmt.Sprintf("%v.AddDuration(24h) = %v want %v", d, g, e)
	}
	if g := e.AddDuration(-day); g != d {
		return "addduration_minus_24h", fmt.Sprintf("%v.AddDuration(-24h) = %v want %v", e, g, d)
	}
	if g := d.AddDuration(day - 1); g != d {
		return "addduration_under_24h", fmt.Sprintf("%v.AddDuration(24h-1ns) = %v want %v", d, g, d)
	}
	t := d.Time()
	ty, tm, td := t.Date()
	hh, mm, ss := t.Clock()
	if int64(ty) != a.Y || int(tm) != a.M || td != a.D || hh != 0 || mm != 0 || ss != 0 || t.Nanosecond() != 0 || t.Location() != time.UTC {
		return "time_midnight_utc", fmt.Sprintf("%v.Time() = %v", d, t)
	}
	if t.Unix() != (a.ord()-unixEpochOrdinal)*86400 {
		return "time_instant", fmt.Sprintf("%v.Time().Unix() = %d want %d", d, t.Unix(), (a.ord()-unixEpochOrdinal)*86400)
	}
	if g := date.FromTime(t); g != d {
		return "fromtime_of_time", fmt.Sprintf("FromTime(%v.Time()) = %v", d, g)
	}
	if v, err := d.Value(); err != nil || v != any(t) {
		return "value", fmt.Sprintf("%v.Value() = %v, %v", d, v, err)
	}
	return "", ""
}

type pairArg struct {
	A ymd `json:"a"`
	B ymd `json:"b"`
}

func sign(x int64) int {
	if x < 0 {
		return -1
	}
	if x > 0 {
		return 1
	}
	return 0
}

func probePair(p pairArg) (string, string) {
	a, b := p.A.date(), p.B.date()
	diff := p.A.ord() - p.B.ord()
	s := sign(diff)
	bf, eq, af := a.Before(b), a.Equal(b), a.After(b)
	if bf != (s < 0) || eq != (s == 0) || af != (s > 0) {
		return "order", fmt.Sprintf("a=%v b=%v (ordinal diff %d): Before=%v Equal=%v After=%v", a, b, diff, bf, eq, af)
	}
	if (a == b) != (s == 0) {
		return "order_equal_operator", fmt.Sprintf("a=%v b=%v: a==b is %v", a, b, a == b)
	}
	if diff >= -106751 && diff <= 106751 { // inside time.Duration's range
		if g := a.Sub(b); g != time.Duration(diff)*day {
			return "sub", fmt.Sprintf("%v.Sub(%v) = %v want %d days", a, b, g, diff)
		}
		if g := a.DaysBetween(b); int64(g) != diff {
			return "daysbetween", fmt.Sprintf("%v.DaysBetween(%v) = %d want %d", a, b, g, diff)
		}
		if g := b.AddDuration(time.Duration(diff) * day); g != a {
			return "addduration_diff", fmt.Sprintf("%v.AddDuration(%d days) = %v want %v", b, diff, g, a)
		}
	}
	if g := b.Add(0, 0, int(diff)); g != a {
		return "add_diff_days", fmt.Sprintf("%v.Add(0,0,%d) = %v want %v", b, diff, g, a)
	}
	return "", ""
}

type addArg struct {
	A      ymd   `json:"a"`
	Years  int64 `json:"years"`
	Months int64 `json:"months"`
	Days   int64 `json:"days"`
}

func probeAdd(p addArg) (string, string) {
	d := p.A.date()
	g := d.Add(int(p.Years), int(p.Months), int(p.Days))
	y, m, dd := oracle.AddDate(p.A.Y, p.A.M, p.A.D, p.Years, p.Months, p.Days)
	if !is(g, ymd{y, m, dd}) {
		return "add", fmt.Sprintf("%v.Add(%d,%d,%d) = %v want %04d-%02d-%02d", d, p.Years, p.Months, p.Days, g, y, m, dd)
	}
	return "", ""
}

type durArg struct {
	A   ymd   `json:"a"`
	Dur int64 `json:"dur_ns"`
}

func floorDiv(a, b int64) int64 {
	q := a / b
	if a%b != 0 && (a < 0) != (b < 0) {
		q--
	}
	return q
}

func probeDur(p durArg) (string, string) {
	d := p.A.date()
	g := d.AddDuration(time.Duration(p.Dur))
	want := fromOrd(p.A.ord() + floorDiv(p.Dur, int64(day)))
	if !is(g, want) {
		return "addduration", fmt.Sprintf("%v.AddDuration(%v) = %v want %v", d, time.Duration(p.Dur), g, want)
	}
	return "", ""
}

type timeArg struct {
	Sec    int64  `json:"unix_sec"`
	Nsec   int64  `json:"nsec"`
	Offset int    `json:"zone_offset_s"`
	Named  string `json:"named_zone,omitempty"` // if set, a zone from the embedded database is used instead of the fixed offset
}

func probeFromTime(p timeArg) (string, string) {
	t := time.Unix(p.Sec, p.Nsec).In(time.FixedZone("z", p.Offset))
	if p.Named != "" {
		loc, err := time.LoadLocation(p.Named)
		if err != nil {
			return "", ""
		}
		t = time.Unix(p.Sec, p.Nsec).In(loc)
		_, off := t.Zone() // the offset in force at that instant (taken from the zone database; the date arithmetic below is the oracle's)
		p.Offset = off
	}
	if t.IsZero() {
		return "", "" // the statement speaks about non-zero times only
	}
	local := p.Sec + int64(p.Offset)
	want := fromOrd(floorDiv(local, 86400) + unixEpochOrdinal)
	if g := date.FromTime(t); !is(g, want) {
		return "fromtime_zone", fmt.Sprintf("FromTime(%v) = %v want %v", t, g, want)
	}
	var m date.Date
	m = date.New(1999, 12, 31)
	m.FromTime(t)
	if !is(m, want) {
		return "fromtime_method", fmt.Sprintf("(*Date).FromTime(%v) = %v want %v", t, m, want)
	}
	s := date.New(1999, 12, 31)
	if err := s.Scan(t); err != nil || !is(s, want) {
		return "scan_time", fmt.Sprintf("Scan(%v) = %v, %v want %v", t, s, err, want)
	}
	return "", ""
}

// history of depth 2: the pair probe after another pair probe (a result must not depend on the previous call)
type histArg struct {
	First  pairArg `json:"first"`
	Second pairArg `json:"second"`
}

func probeHist(h histArg) (string, string) {
	_, _ = probePair(h.First)
	_, _ = probeAdjacent(h.First.A)
	if k, d := probePair(h.Second); k != "" {
		return "after_previous_call:" + k, fmt.Sprintf("after the same operations on %v/%v: %s", h.First.A, h.First.B, d)
	}
	if k, d := probeAdjacent(h.Second.B); k != "" {
		return "after_previous_call:" + k, fmt.Sprintf("after the same operations on %v/%v: %s", h.First.A, h.First.B, d)
	}
	return "", ""
}

func boundarySet() []ymd {
	var s []ymd
	for _, y := range []int64{-1, 0, 1, 2, 4, 100, 400, 1582, 1899, 1900, 1999, 2000, 2001, 2024, 9999} {
		for m := 1; m <= 12; m++ {
			s = append(s, ymd{y, m, 1}, ymd{y, m, 2}, ymd{y, m, oracle.DaysIn(y, m) - 1}, ymd{y, m, oracle.DaysIn(y, m)})
		}
	}
	for _, y := range []int64{-1500000000, 1500000000, -2147483646, 2147483646, 999999999, -999999999, 10000} {
		s = append(s, ymd{y, 1, 1}, ymd{y, 3, 4}, ymd{y, 12, 31})
	}
	for _, y := range []int64{2023, 2024} {
		for m := 1; m <= 12; m++ {
			for d := 1; d <= oracle.DaysIn(y, m); d++ {
				s = append(s, ymd{y, m, d})
			}
		}
	}
	return s
}

func main() {
	mc.Main("C07", "complete enumeration of the stated grids (adjacent pairs of every date 0000-9999, all ordered pairs of a boundary set, Add/AddDuration/FromTime grids) against a day-ordinal reference; "+
		"non-trivial = the two dates differ in more than the day field, or the step crosses a month/year/leap boundary", func(r *mc.Run) {
		firstuse.Phase(r, map[string][]string{"date": {"arith"}})
		pAdj := mc.NewProbe(r, "adjacent", nil, probeAdjacent)
		pPair := mc.NewProbe(r, "pair", nil, probePair)
		pAdd := mc.NewProbe(r, "add", nil, probeAdd)
		pDur := mc.NewProbe(r, "addduration", nil, probeDur)
		pTime := mc.NewProbe(r, "fromtime", nil, probeFromTime)
		r.Assume("reference: day ordinals from the arithmetic definition of the proleptic Gregorian calendar (oracle.Ordinal/FromOrdinal), AddDate-style normalisation (months carried into years, day offset through ordinals), floor division for negative durations; package time is used only to construct the time.Time inputs handed to the library")
		r.Assume("Sub/DaysBetween are only judged for |difference| <= 106751 days (time.Duration range)")

		r.Phase("every date of years 0000-9999 with its successor: order, Sub, DaysBetween, Add(+-1 day), AddDuration(+-24h), Time, Value", "complete", func() {
			r.Parallel(10000, 8, func(w *mc.W, y int64) {
				for m := 1; m <= 12; m++ {
					dim := oracle.DaysIn(y, m)
					for d := 1; d <= dim; d++ {
						w.Point()
						if d == dim {
							w.NonTrivial()
						}
						pAdj.Do(w, ymd{y, m, d})
					}
				}
				w.Outcome(fmt.Sprintf("adjacent leap=%v", oracle.IsLeap(y)))
			})
		})
		pHi := mc.NewProbe(r, "history2", nil, probeHist)
		r.Phase("serial: all histories of two operation groups over 9 dates (ordering, Sub, DaysBetween, Add, AddDuration, Time on one pair, then on another pair which is judged)", "complete for depth 2 over the listed dates", func() {
			hs := []ymd{{2024, 2, 28}, {2024, 2, 29}, {2024, 3, 1}, {2023, 12, 31}, {2024, 1, 1}, {1, 1, 1}, {0, 12, 31}, {9999, 12, 30}, {2000, 2, 29}}
			r.Serial(func(w *mc.W) {
				for _, a := range hs {
					for _, b := range hs {
						for _, c := range hs {
							for _, d := range hs {
								w.Point()
								pHi.Do(w, histArg{pairArg{a, b}, pairArg{c, d}})
							}
						}
					}
				}
			})
		})
		pZ := mc.NewProbe(r, "zone", setupZone, probeZone)
		r.Reset = func() { time.Local = defaultLocal }
		for _, z := range mc.Zones {
			z := z
			r.Phase(fmt.Sprintf("time.Local = %s: every day of 1880-2040 with its successor and the day 40 days later (order, Sub, DaysBetween, Add, AddDuration, Time)", z), "complete for the listed years", func() {
				setupZone(zoneArg{Zone: z})
				r.Parallel(161, 1, func(w *mc.W, i int64) {
					y := 1880 + i
					for m := 1; m <= 12; m++ {
						for d := 1; d <= oracle.DaysIn(y, m); d++ {
							w.Point()
							pZ.Do(w, zoneArg{ymd{y, m, d}, z})
						}
					}
				})
				time.Local = defaultLocal
			})
		}
		S := boundarySet()
		r.Phase(fmt.Sprintf("all ordered pairs of %d boundary dates (month starts/ends of 15 years incl. -1,0,1,1582,9999; all of 2023-2024)", len(S)), "complete", func() {
			n := int64(len(S))
			r.Parallel(n, 1, func(w *mc.W, i int64) {
				for j := range S {
					w.Point()
					if S[i].Y != S[j].Y || S[i].M != S[j].M {
						w.NonTrivial()
					}
					pPair.Do(w, pairArg{S[i], S[j]})
					switch sign(S[i].ord() - S[j].ord()) {
					case -1:
						w.Outcome("pair before")
					case 0:
						w.Outcome("pair equal")
					default:
						w.Outcome("pair after")
					}
				}
			})
		})
		r.Sample("pair", pairArg{ymd{2024, 3, 1}, ymd{2023, 12, 31}})
		var small []ymd
		for y := int64(-1); y <= 2; y++ {
			for m := 1; m <= 12; m++ {
				for d := 1; d <= oracle.DaysIn(y, m); d++ {
					small = append(small, ymd{y, m, d})
				}
			}
		}
		r.Phase(fmt.Sprintf("all ordered pairs of the %d dates of years -1..2 (every year/month/day field combination)", len(small)), "complete", func() {
			r.Parallel(int64(len(small)), 4, func(w *mc.W, i int64) {
				for j := range small {
					w.Point()
					w.NonTrivial()
					pPair.Do(w, pairArg{small[i], small[j]})
				}
			})
		})
		// Add grid
		var S2 []ymd
		for _, y := range []int64{0, 1, 1900, 2000, 2023, 2024, 9998} {
			for _, md := range [][2]int{{1, 1}, {1, 31}, {2, 28}, {2, 29}, {3, 1}, {3, 31}, {4, 30}, {5, 31}, {6, 15}, {7, 31}, {8, 31}, {10, 31}, {11, 30}, {12, 1}, {12, 31}} {
				if oracle.RealDate(y, md[0], md[1]) {
					S2 = append(S2, ymd{y, md[0], md[1]})
				}
			}
		}
		yearsG := []int64{-401, -400, -100, -4, -1, 0, 1, 3, 4, 100, 400}
		daysG := []int64{-800, -366, -365, 365, 366, 800, 1461, -1461, 36524, 146097}
		for i := int64(-31); i <= 31; i++ {
			daysG = append(daysG, i)
		}
		if !r.Quick() {
			for i := int64(-800); i <= 800; i++ {
				daysG = append(daysG, i)
			}
		}
		r.Phase(fmt.Sprintf("Add grid: %d dates x %d year steps x months -25..25 x %d day steps", len(S2), len(yearsG), len(daysG)), "complete grid", func() {
			r.Parallel(int64(len(S2))*int64(len(yearsG)), 1, func(w *mc.W, i int64) {
				a := S2[i/int64(len(yearsG))]
				ys := yearsG[i%int64(len(yearsG))]
				if a.Y+ys < -3 { // keep inside the years the library can represent meaningfully here
					ys = 0
				}
				for mo := int64(-25); mo <= 25; mo++ {
					for _, dd := range daysG {
						w.Point()
						if mo != 0 || dd > 28 || dd < -28 {
							w.NonTrivial()
						}
						pAdd.Do(w, addArg{a, ys, mo, dd})
					}
				}
				w.Outcome("add grid")
			})
		})
		r.Sample("add", addArg{ymd{2024, 1, 31}, 0, 1, 0})
		deltas := []int64{-1, 0, 1, int64(12 * time.Hour), int64(day) - 1, int64(time.Second), -int64(time.Second)}
		r.Phase(fmt.Sprintf("AddDuration grid: %d dates x (k*24h + delta), k in -800..800, %d deltas", len(S2), len(deltas)), "complete grid", func() {
			r.Parallel(int64(len(S2))*1601, 16, func(w *mc.W, i int64) {
				a := S2[i/1601]
				k := i%1601 - 800
				for _, dl := range deltas {
					w.Point()
					w.NonTrivial()
					pDur.Do(w, durArg{a, k*int64(day) + dl})
				}
				w.Outcome("addduration grid")
			})
		})
		// the ends of time.Duration's range: the largest shifts a duration can express, and pairs of dates exactly at, just
		// inside and just outside the +-106751 days a duration can hold (Sub / DaysBetween are judged inside the range only)
		r.Phase(fmt.Sprintf("extremes of time.Duration: %d dates x durations {MinInt64.., MaxInt64.., +-106751 days +- {0,1ns,12h,24h-1ns}, +-106750 days}; pairs exactly 106749..106753 days apart", len(S2)), "complete grid", func() {
			const maxDays = 106751
			var durs []int64
			for _, b := range []int64{math.MinInt64, math.MaxInt64, maxDays * int64(day), -maxDays * int64(day), (maxDays - 1) * int64(day), -(maxDays - 1) * int64(day)} {
				for _, dl := range []int64{0, 1, -1, int64(12 * time.Hour), -int64(12 * time.Hour), int64(day) - 1, -(int64(day) - 1), int64(time.Second)} {
					v := b + dl
					if (dl > 0 && v < b) || (dl < 0 && v > b) { // would wrap around int64
						continue
					}
					durs = append(durs, v)
				}
			}
			r.Parallel(int64(len(S2)), 1, func(w *mc.W, i int64) {
				a := S2[i]
				for _, du := range durs {
					w.Point()
					w.NonTrivial()
					pDur.Do(w, durArg{a, du})
				}
				for k := int64(maxDays - 2); k <= maxDays+2; k++ {
					for _, sgn := range []int64{1, -1} {
						y, m, d := oracle.FromOrdinal(a.ord() + sgn*k)
						b := ymd{y, m, d}
						w.Point()
						w.NonTrivial()
						pPair.Do(w, pairArg{a, b})
						pPair.Do(w, pairArg{b, a})
					}
				}
				w.Outcome("duration extremes")
			})
		})
		r.Sample("addduration", durArg{ymd{2024, 3, 1}, -1})
		// FromTime zones
		var offs []int
		for o := -12 * 3600; o <= 14*3600; o += 900 {
			offs = append(offs, o)
		}
		offs = append(offs, 1, -1, 59, -59, 86399, -86399)
		var TS []ymd
		TS = append(TS, S2...)
		TS = append(TS, ymd{1, 1, 1}, ymd{1, 1, 2}, ymd{0, 12, 31}, ymd{1970, 1, 1}, ymd{1969, 12, 31}, ymd{9999, 12, 31}, ymd{-1, 12, 31})
		r.Phase(fmt.Sprintf("FromTime/Scan: %d dates x %d fixed zones x instants {local midnight, UTC midnight} +- {0,1ns,1s}", len(TS), len(offs)), "complete grid", func() {
			r.Parallel(int64(len(TS))*int64(len(offs)), 8, func(w *mc.W, i int64) {
				a := TS[i/int64(len(offs))]
				off := offs[i%int64(len(offs))]
				utcMid := (a.ord() - unixEpochOrdinal) * 86400
				for _, base := range []int64{utcMid, utcMid - int64(off)} {
					for _, dl := range [][2]int64{{0, 0}, {0, 1}, {-1, 999999999}, {1, 0}, {-1, 0}, {43200, 0}} {
						w.Point()
						w.NonTrivial()
						pTime.Do(w, timeArg{Sec: base + dl[0], Nsec: dl[1], Offset: off})
					}
				}
				w.Outcome("fromtime grid")
			})
		})
		r.Sample("fromtime", timeArg{Sec: 1704067199, Nsec: 999999999, Offset: 5 * 3600})
		r.Phase("FromTime/Scan in named zones with DST and calendar skips: every day of 1990-2030 at UTC midnight and local midnight +- {0,1ns,1s,1h,12h}", "complete grid", func() {
			zs := append([]string{"Europe/London", "Australia/Lord_Howe", "Asia/Kathmandu", "America/St_Johns"}, mc.Zones...)
			r.Parallel(int64(len(zs))*41, 1, func(w *mc.W, i int64) {
				z := zs[i/41]
				y := 1990 + i%41
				for m := 1; m <= 12; m++ {
					for d := 1; d <= oracle.DaysIn(y, m); d++ {
						utcMid := (oracle.Ordinal(y, m, d) - unixEpochOrdinal) * 86400
						for _, dl := range [][2]int64{{0, 0}, {0, 1}, {-1, 999999999}, {1, 0}, {3600, 0}, {-3600, 0}, {43200, 0}, {-43200, 0}, {50400, 0}, {-39600, 0}} {
							w.Point()
							pTime.Do(w, timeArg{Sec: utcMid + dl[0], Nsec: dl[1], Named: z})
						}
					}
				}
			})
		})
	})
}
