// C06: version precedence follows SemVer 2.0.0 section 11.
package main

import (
	"fmt"
	"strings"

	"go.lstv.dev/util/sem"
	"verif/firstuse"
	"verif/libdefaults"
	"verif/mc"
	"verif/oracle"
)

func reset() {
	libdefaults.Sem()
}

type pairArg struct {
	A      string `json:"a"`
	B      string `json:"b"`
	BuildA string `json:"build_a,omitempty"` // build metadata used by the string helpers
	BuildB string `json:"build_b,omitempty"`
	// Limit: sem.MaxInputLength during the comparison (nil = the library's default). The order of two valid version values
	// must not depend on the parser's input limit.
	Limit *int `json:"max_input_length,omitempty"`
}

func setupPair(p pairArg) {
	libdefaults.Sem()
	if p.Limit != nil {
		sem.MaxInputLength = *p.Limit
	}
}

func probePre(p pairArg) (string, string) {
	if oracle.PinnedDeparture(p.A, p.B) {
		return "", ""
	}
	want := oracle.ComparePre(p.A, p.B)
	if g := sem.DefaultComparePreRelease(p.A, p.B); g != want {
		return "prerelease_order", fmt.Sprintf("DefaultComparePreRelease(%q, %q) = %d; section 11 says %d", p.A, p.B, g, want)
	}
	if g := sem.DefaultComparePreRelease([]byte(p.A), p.B); g != want {
		return "prerelease_order_bytes", fmt.Sprintf("DefaultComparePreRelease([]byte(%q), %q) = %d; section 11 says %d", p.A, p.B, g, want)
	}
	if g := sem.DefaultComparePreRelease(p.A, []byte(p.B)); g != want {
		return "prerelease_order_bytes", fmt.Sprintf("DefaultComparePreRelease(%q, []byte(%q)) = %d; section 11 says %d", p.A, p.B, g, want)
	}
	va, vb := sem.New(1, 2, 3, p.A, "b1"), sem.New(1, 2, 3, p.B)
	if g := va.Compare(vb); g != want {
		return "ver_compare", fmt.Sprintf("1.2.3-%s+b1 Compare 1.2.3-%s = %d; section 11 says %d", p.A, p.B, g, want)
	}
	return "", ""
}

// history of depth 2: a comparison must not depend on which comparison was made before it
type histArg struct {
	First  pairArg `json:"first"`
	Second pairArg `json:"second"`
}

func probeHist(h histArg) (string, string) {
	_ = sem.DefaultComparePreRelease(h.First.A, h.First.B)
	_ = sem.New(1, 2, 3, h.First.A).Compare(sem.New(1, 2, 3, h.First.B))
	if k, d := probePre(h.Second); k != "" {
		return "after_previous_call:" + k, fmt.Sprintf("after comparing (%q, %q): %s", h.First.A, h.First.B, d)
	}
	return "", ""
}

// reconfiguration history: a custom comparator is installed, the pair is compared, the default is restored, the pair is judged
func probeReconf(p pairArg) (string, string) {
	sem.ComparePreRelease = func(x, y string) int { return -sem.DefaultComparePreRelease(x, y) }
	_ = sem.New(1, 2, 3, p.A, "b1").Compare(sem.New(1, 2, 3, p.B))
	_, _ = sem.Compare("1.0.0-"+p.A, "1.0.0-"+p.B+"+x.1")
	reset()
	if k, d := probePre(p); k != "" {
		return "after_reconfiguration:" + k, "after the same pair was compared under a user-installed comparator and the default was restored: " + d
	}
	if k, d := probeHelpers(p); k != "" {
		return "after_reconfiguration:" + k, "after the same pair was compared under a user-installed comparator and the default was restored: " + d
	}
	return "", ""
}

func text(tag bool, core, pre, build string) string {
	s := core
	if tag {
		s = "v" + s
	}
	if pre != "" {
		s += "-" + pre
	}
	if build != "" {
		s += "+" + build
	}
	return s
}

func probeHelpers(p pairArg) (string, string) {
	if oracle.PinnedDeparture(p.A, p.B) {
		return "", ""
	}
	want := oracle.ComparePre(p.A, p.B)
	a, b := text(false, "1.0.0", p.A, p.BuildA), text(false, "1.0.0", p.B, "x.1")
	if p.BuildB != "" {
		b = text(false, "1.0.0", p.B, p.BuildB)
	}
	ta, tb := "v"+a, "v"+b
	type res struct {
		name string
		c    int
		err  error
	}
	c1, e1 := sem.Compare(a, b)
	c2, e2 := sem.Compare(ta, []byte(b))
	c3, e3 := sem.CompareVersion[string, string](a, b)
	c4, e4 := sem.CompareTag(ta, tb)
	c5, e5 := sem.CompareTag([]byte(ta), []byte(tb))
	for _, r := range []res{{"Compare", c1, e1}, {"Compare(tag,bytes)", c2, e2}, {"CompareVersion", c3, e3}, {"CompareTag", c4, e4}, {"CompareTag(bytes)", c5, e5}} {
		if r.err != nil || r.c != want {
			return "helper_order", fmt.Sprintf("%s(%q, %q) = %d, %v; section 11 says %d", r.name, a, b, r.c, r.err, want)
		}
	}
	va, _ := sem.Parse(a)
	vb, _ := sem.Parse(b)
	wantLatest := va
	if want < 0 {
		wantLatest = vb
	}
	l0 := va.Latest(vb)
	l1, e1 := sem.Latest(a, b)
	l2, e2 := sem.LatestVersion(a, []byte(b))
	l3, e3 := sem.LatestTag(ta, tb)
	for i, l := range []sem.Ver{l0, l1, l2, l3} {
		if err := []error{nil, e1, e2, e3}[i]; err != nil {
			return "latest_error", fmt.Sprintf("Latest helper %d (%q, %q): %v", i, a, b, err)
		}
		if want != 0 && l != wantLatest {
			return "latest", fmt.Sprintf("Latest helper %d (%q, %q) = %s; section 11 says %s", i, a, b, l, wantLatest)
		}
		if want == 0 && l != va && l != vb {
			return "latest_not_an_argument", fmt.Sprintf("Latest helper %d (%q, %q) = %s", i, a, b, l)
		}
	}
	return "", ""
}

type coreArg struct {
	A      [3]uint64 `json:"a"`
	B      [3]uint64 `json:"b"`
	PreA   string    `json:"pre_a"`
	PreB   string    `json:"pre_b"`
	BuildA string    `json:"build_a"`
	BuildB string    `json:"build_b"`
}

func probeCore(p coreArg) (string, string) {
	want := 0
	for i := 0; i < 3 && want == 0; i++ {
		if p.A[i] < p.B[i] {
			want = -1
		} else if p.A[i] > p.B[i] {
			want = 1
		}
	}
	if want == 0 {
		if oracle.PinnedDeparture(p.PreA, p.PreB) {
			return "", ""
		}
		want = oracle.ComparePre(p.PreA, p.PreB)
	}
	va := sem.Ver{Major: p.A[0], Minor: p.A[1], Patch: p.A[2], PreRelease: p.PreA, Build: p.BuildA}
	vb := sem.Ver{Major: p.B[0], Minor: p.B[1], Patch: p.B[2], PreRelease: p.PreB, Build: p.BuildB}
	if g := va.Compare(vb); g != want {
		return "core_order", fmt.Sprintf("%s Compare %s = %d; section 11 says %d", va, vb, g, want)
	}
	if g, err := sem.Compare(va.String(), vb.StringTag()); err != nil || g != want {
		return "core_order_helper", fmt.Sprintf("Compare(%q, %q) = %d, %v; section 11 says %d", va.String(), vb.StringTag(), g, err, want)
	}
	l := va.Latest(vb)
	if want < 0 && l != vb || want > 0 && l != va || want == 0 && l != va && l != vb {
		return "core_latest", fmt.Sprintf("%s Latest %s = %s (order %d)", va, vb, l, want)
	}
	return "", ""
}

func main() {
	mc.Main("C06", "all ordered pairs over the complete universe of valid pre-releases over {0,1,2,9,a,B,-,.} up to the stated length plus the empty one; identifier lists up to length 3 over boundary numeric/alphanumeric identifiers; cores around 2^64-1 x pre-releases x build metadata; the specification's example chain; "+
		"non-trivial = both pre-releases non-empty and different", func(r *mc.Run) {
		firstuse.Phase(r, map[string][]string{"sem": {"compare"}})
		r.Reset = reset
		reset()
		pPre := mc.NewProbe(r, "prerelease_pair", setupPair, probePre)
		pHelp := mc.NewProbe(r, "helpers", nil, probeHelpers)
		pCore := mc.NewProbe(r, "cores", nil, probeCore)
		r.Assume("reference: identifier-wise section-11 comparator (numeric identifiers compared with math/big and below alphanumeric ones, ASCII order, longer list above its prefix, release above pre-release, build ignored)")
		r.Assume("excluded exactly as the statement says: first differing identifiers both alphanumeric and equal after stripping trailing digits (a01 vs a1, rc9 vs rc10)")
		L := 4
		if !r.Quick() {
			L = 5
		}
		U := append([]string{""}, oracle.PreReleases("0129aB-.", L)...)
		r.Extra["prerelease_universe"] = len(U)
		cnt := func(w *mc.W, a, b string) {
			w.Point()
			if a != "" && b != "" && a != b {
				w.NonTrivial()
			}
		}
		r.Phase(fmt.Sprintf("all %d^2 ordered pairs of valid pre-releases of length <= %d: DefaultComparePreRelease (string/[]byte) and Ver.Compare", len(U), L), "complete", func() {
			r.Parallel(int64(len(U)), 1, func(w *mc.W, i int64) {
				for j := range U {
					cnt(w, U[i], U[j])
					pPre.Do(w, pairArg{A: U[i], B: U[j]})
				}
				w.Outcome("row")
			})
			r.Serial(func(w *mc.W) {
				for _, c := range []int{-1, 0, 1} {
					w.Outcome(fmt.Sprintf("order %d", c))
				}
			})
		})
		r.Sample("pair", pairArg{A: "beta.2", B: "beta.11"})
		pHi := mc.NewProbe(r, "history2", nil, probeHist)
		r.Phase("serial: all histories of two comparisons over 14 pre-releases (the second comparison is judged against section 11)", "complete for depth 2 over the listed pre-releases", func() {
			hs := []string{"", "1", "2", "3", "2.1", "1.3", "alpha", "beta", "rc", "beta.alpha", "alpha.rc", "a.b.c", "a.b", "b.c"}
			r.Serial(func(w *mc.W) {
				for _, a := range hs {
					for _, b := range hs {
						for _, c := range hs {
							for _, d := range hs {
								w.Point()
								pHi.Do(w, histArg{pairArg{A: a, B: b}, pairArg{A: c, B: d}})
							}
						}
					}
				}
			})
		})
		U3 := append([]string{""}, oracle.PreReleases("0129aB-.", 3)...)
		r.Phase(fmt.Sprintf("all %d^2 ordered pairs of pre-releases of length <= 3 through Compare, CompareVersion, CompareTag, Ver.Latest, Latest, LatestVersion, LatestTag", len(U3)), "complete", func() {
			r.Parallel(int64(len(U3)), 1, func(w *mc.W, i int64) {
				for j := range U3 {
					cnt(w, U3[i], U3[j])
					pHelp.Do(w, pairArg{A: U3[i], B: U3[j]})
				}
			})
		})
		ids := []string{"0", "1", "9", "10", "99", "100", "18446744073709551615", "18446744073709551616", "1000000000000000000000000", "1000000000000000000000001", "a", "a-", "-1", "1a", "B",
			// every machine-integer boundary a fast path could use: 2^31, 2^32, 2^53, 2^63 and their neighbours, the smallest and largest 18-, 19- and 20-digit numbers
			"2147483647", "2147483648", "4294967295", "4294967296", "9007199254740992", "9007199254740993", "999999999999999999", "1000000000000000000", "9223372036854775807", "9223372036854775808", "9223372036854775809", "9999999999999999999", "10000000000000000000"}
		var lists []string
		for _, x := range ids {
			lists = append(lists, x)
			for _, y := range ids {
				lists = append(lists, x+"."+y)
				if r.Quick() {
					continue
				}
				for _, z := range ids {
					lists = append(lists, x+"."+y+"."+z)
				}
			}
		}
		if r.Quick() {
			for _, x := range ids[:6] {
				for _, y := range ids[8:13] {
					for _, z := range ids {
						lists = append(lists, x+"."+y+"."+z, y+"."+x+"."+z)
					}
				}
			}
		}
		r.Phase(fmt.Sprintf("all ordered pairs of %d identifier lists (length <= 3) over %d boundary identifiers (numbers up to 10^24+1, alphanumerics)", len(lists), len(ids)), "complete", func() {
			r.Parallel(int64(len(lists)), 1, func(w *mc.W, i int64) {
				for j := range lists {
					cnt(w, lists[i], lists[j])
					pPre.Do(w, pairArg{A: lists[i], B: lists[j]})
				}
			})
		})
		r.Sample("pair", pairArg{A: "1.18446744073709551616", B: "1.1000000000000000000000000"})
		var l4 []string
		small := []string{"0", "1", "10", "a", "-"}
		var g4 func(cur string, n int)
		g4 = func(cur string, n int) {
			if n > 0 {
				l4 = append(l4, cur)
			}
			if n == 4 {
				return
			}
			for _, x := range small {
				if n == 0 {
					g4(x, 1)
				} else {
					g4(cur+"."+x, n+1)
				}
			}
		}
		g4("", 0)
		r.Phase(fmt.Sprintf("all ordered pairs of the %d identifier lists of length 1..4 over {0,1,10,a,-}", len(l4)), "complete", func() {
			r.Parallel(int64(len(l4)), 1, func(w *mc.W, i int64) {
				for j := range l4 {
					cnt(w, l4[i], l4[j])
					pPre.Do(w, pairArg{A: l4[i], B: l4[j]})
				}
			})
		})
		var long []string
		for _, fam := range [][]string{{"a", "b", "c", "d", "e", "f", "g", "h", "i", "j", "k", "l", "m", "n", "o", "p", "q", "r", "s", "t"}, {"1", "1", "1", "1", "1", "1", "1", "1", "1", "1", "1", "1", "1", "1", "1", "1", "1", "1", "1", "1"}} {
			for n := 1; n <= 20; n++ {
				prefix := strings.Join(fam[:n-1], ".")
				for _, last := range []string{"1", "2", "10", "x", "y", fam[n-1]} {
					if prefix == "" {
						long = append(long, last)
					} else {
						long = append(long, prefix+"."+last)
					}
				}
			}
		}
		r.Phase(fmt.Sprintf("all ordered pairs of %d long identifier lists (1..20 identifiers, shared prefixes, differing last identifier or length)", len(long)), "complete", func() {
			r.Parallel(int64(len(long)), 1, func(w *mc.W, i int64) {
				for j := range long {
					cnt(w, long[i], long[j])
					pPre.Do(w, pairArg{A: long[i], B: long[j]})
					pHelp.Do(w, pairArg{A: long[i], B: long[j]})
				}
			})
		})
		// the parser's input limit must not leak into the comparison of version *values* (sem.New / literals can carry
		// pre-releases of any length): every small limit on the short universe, and pre-releases around and beyond the
		// default limit whose first difference (or the end of the shorter one) lies at or beyond it
		for _, ml := range []int{1, 2, 3, 5, 8} {
			ml := ml
			r.Phase(fmt.Sprintf("sem.MaxInputLength=%d: all %d^2 ordered pairs of pre-releases of length <= 3 as version values (DefaultComparePreRelease, Ver.Compare)", ml, len(U3)), "complete", func() {
				sem.MaxInputLength = ml
				r.Parallel(int64(len(U3)), 4, func(w *mc.W, i int64) {
					for j := range U3 {
						cnt(w, U3[i], U3[j])
						pPre.Do(w, pairArg{A: U3[i], B: U3[j], Limit: &ml})
					}
				})
				reset()
			})
		}
		var huge []string
		L0 := libdefaults.SemMaxInputLength
		if L0 < 8 {
			L0 = 1024
		}
		for _, n := range []int{L0 - 20, L0 - 7, L0 - 6, L0 - 5, L0 - 1, L0, L0 + 1, 2 * L0, 4*L0 + 3} {
			base := strings.Repeat("a", n)
			huge = append(huge, base, base+"b", base+".1", base+".2", base+".1.x", base[:n-1]+"b", base+"-", "1."+base, "1."+base+".0")
		}
		r.Phase(fmt.Sprintf("all ordered pairs of %d pre-releases of %d..%d bytes (common prefixes up to and beyond the default input limit %d) as version values", len(huge), L0-20, 4*L0+8, libdefaults.SemMaxInputLength), "complete", func() {
			r.Parallel(int64(len(huge)), 1, func(w *mc.W, i int64) {
				for j := range huge {
					cnt(w, huge[i], huge[j])
					pPre.Do(w, pairArg{A: huge[i], B: huge[j]})
				}
			})
		})
		// long alphanumeric identifiers (8..17 bytes): every pair of strings over {a,b} of length 8 and 9, and identifiers that differ in two places
		var longIDs []string
		var gl func(cur string, n int)
		gl = func(cur string, n int) {
			if len(cur) == n {
				longIDs = append(longIDs, cur)
				return
			}
			gl(cur+"a", n)
			gl(cur+"b", n)
		}
		gl("", 8)
		gl("", 9)
		for _, x := range []string{"abcdefgh", "bacdefgh", "x1-fixes", "y0-fixes", "abcdefghijklmnop", "abcdefghijklmnpo", "abcdefghijklmnopq", "bbcdefghijklmnopa", "release-candidate", "release-candidatf", "0123456789abcdefg", "0123456789abcdeg0", "Abcdefgh", "aBcdefgh", "ABCDEFGH"} {
			longIDs = append(longIDs, x)
		}
		r.Phase(fmt.Sprintf("all ordered pairs of %d long alphanumeric identifiers (all strings over {a,b} of length 8 and 9, two-difference pairs up to 17 bytes)", len(longIDs)), "complete", func() {
			r.Parallel(int64(len(longIDs)), 1, func(w *mc.W, i int64) {
				for j := range longIDs {
					cnt(w, longIDs[i], longIDs[j])
					pPre.Do(w, pairArg{A: longIDs[i], B: longIDs[j]})
				}
			})
		})
		// the string helpers with hyphenated / dotted / numeric build metadata, and pairs that differ only in letter case
		r.Phase("string helpers: pre-releases of length <= 3 (incl. empty) x build metadata {exp.sha-5114f85, -, 0-0, a-b.c-d} on either side; every pre-release against its upper-, lower- and swapped-case variants", "complete", func() {
			builds := []string{"exp.sha-5114f85", "-", "0-0", "a-b.c-d", "001"}
			r.Parallel(int64(len(U3)), 1, func(w *mc.W, i int64) {
				for j := range U3 {
					if (int(i)+j)%5 != 0 && U3[i] != "" && U3[j] != "" {
						continue
					}
					for _, bd := range builds {
						w.Point()
						pHelp.Do(w, pairArg{A: U3[i], B: U3[j], BuildA: bd})
						pHelp.Do(w, pairArg{A: U3[i], B: U3[j], BuildB: bd})
					}
				}
			})
			swap := func(s string, mode int) string {
				b := []byte(s)
				for k, c := range b {
					up := c >= 'A' && c <= 'Z'
					lo := c >= 'a' && c <= 'z'
					switch {
					case lo && (mode == 0 || mode == 2):
						b[k] = c - 32
					case up && (mode == 1 || mode == 2):
						b[k] = c + 32
					}
				}
				return string(b)
			}
			r.Parallel(int64(len(U)), 64, func(w *mc.W, i int64) {
				for mode := 0; mode < 3; mode++ {
					v := swap(U[i], mode)
					if v == U[i] {
						continue
					}
					w.Point()
					w.NonTrivial()
					pHelp.Do(w, pairArg{A: U[i], B: v, BuildA: "x.1"}) // the same build metadata on both sides: texts of equal length
					pHelp.Do(w, pairArg{A: v, B: U[i], BuildA: "x.1"})
					pPre.Do(w, pairArg{A: U[i], B: v})
				}
			})
		})
		r.Phase("reconfiguration: a reversed comparator is installed as sem.ComparePreRelease, every pair of pre-releases of length <= 3 is compared, the default is restored and the same pairs are judged against section 11", "complete", func() {
			sem.ComparePreRelease = func(x, y string) int { return -sem.DefaultComparePreRelease(x, y) }
			r.Parallel(int64(len(U3)), 1, func(w *mc.W, i int64) {
				for j := range U3 {
					_ = sem.New(1, 2, 3, U3[i], "b1").Compare(sem.New(1, 2, 3, U3[j]))
					_, _ = sem.Compare("1.0.0-"+U3[i], "1.0.0-"+U3[j])
				}
			})
			reset()
			r.Parallel(int64(len(U3)), 1, func(w *mc.W, i int64) {
				for j := range U3 {
					cnt(w, U3[i], U3[j])
					pPre.Do(w, pairArg{A: U3[i], B: U3[j]})
					pHelp.Do(w, pairArg{A: U3[i], B: U3[j]})
				}
			})
		})
		pRc := mc.NewProbe(r, "reconfiguration_history", nil, probeReconf)
		r.Phase("serial: for every ordered pair of pre-releases of length <= 2 and of the example chain: compare under a user-installed comparator, restore the default, judge the same pair", "complete for depth 2", func() {
			U2 := append([]string{""}, oracle.PreReleases("0129aB-.", 2)...)
			U2 = append(U2, "alpha", "alpha.1", "alpha.beta", "beta", "beta.2", "beta.11", "rc.1")
			r.Serial(func(w *mc.W) {
				for _, a := range U2 {
					for _, b := range U2 {
						if a == "" || b == "" {
							continue
						}
						w.Point()
						pRc.Do(w, pairArg{A: a, B: b})
					}
				}
			})
		})
		chain := []string{"alpha", "alpha.1", "alpha.beta", "beta", "beta.2", "beta.11", "rc.1", ""}
		nums := []uint64{0, 1, 9, 10, 18446744073709551614, 18446744073709551615}
		pres := []string{"", "alpha", "1"}
		builds := []string{"", "b", "1"}
		r.Phase("cores from {0,1,9,10,2^64-2,2^64-1}^3, all ordered pairs x 3x3 pre-releases x 3 builds; the specification's example chain (all pairs) on 3 cores", "complete cross product", func() {
			n := int64(len(nums) * len(nums) * len(nums))
			core := func(i int64) [3]uint64 {
				return [3]uint64{nums[i%6], nums[i/6%6], nums[i/36]}
			}
			r.Parallel(n*n, 64, func(w *mc.W, idx int64) {
				a, b := core(idx/n), core(idx%n)
				for _, pa := range pres {
					for _, pb := range pres {
						bi := int(idx) % 3
						w.Point()
						w.NonTrivial()
						pCore.Do(w, coreArg{a, b, pa, pb, builds[bi], builds[(bi+1)%3]})
					}
				}
			})
			r.Serial(func(w *mc.W) {
				for _, c := range [][3]uint64{{1, 0, 0}, {0, 0, 0}, {18446744073709551615, 18446744073709551615, 18446744073709551615}} {
					for _, x := range chain {
						for _, y := range chain {
							w.Point()
							pCore.Do(w, coreArg{c, c, x, y, "", "build"})
							pHelp.Do(w, pairArg{A: x, B: y})
						}
					}
				}
			})
		})
		r.Sample("core", coreArg{[3]uint64{1, 0, 0}, [3]uint64{1, 0, 0}, "rc.1", "", "", "build"})
		_ = strings.Join
	})
}
