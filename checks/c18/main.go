// C18: parsers are total and enforce the configured input limit first.
package main

import (
	"encoding/json"
	"errors"
	"fmt"
	"runtime"
	"strings"
	"time"

	"go.lstv.dev/util/date"
	"go.lstv.dev/util/roman"
	"go.lstv.dev/util/sem"
	"go.lstv.dev/util/size"
	"go.lstv.dev/util/uu"
	"verif/firstuse"
	"verif/libdefaults"
	"verif/mc"
)

// the limits the library starts with (the statement speaks of "a package's maximum input length", not of particular values)
var defaults = map[string]int{"date": libdefaults.DateMaxInputLength, "roman": libdefaults.RomanMaxInputLength, "sem": libdefaults.SemMaxInputLength, "size": libdefaults.SizeMaxInputLength, "uu": libdefaults.UUMaxInputLength}

func reset() {
	libdefaults.All()
}

// limit mode: 0 default, 1 disabled (0), 2 one, 3 default+1, 4 eight
func limitFor(pkg string, mode int) int {
	switch mode {
	case 1:
		return 0
	case 2:
		return 1
	case 3:
		return defaults[pkg] + 1
	case 4:
		return 8
	}
	return defaults[pkg]
}

func setLimits(mode int) {
	if mode == 0 { // default configuration: whatever the library starts with (the oracle assumes the documented defaults)
		libdefaults.All()
		return
	}
	date.MaxInputLength = limitFor("date", mode)
	roman.MaxInputLength = limitFor("roman", mode)
	sem.MaxInputLength = limitFor("sem", mode)
	size.MaxInputLength = limitFor("size", mode)
	uu.MaxInputLength = limitFor("uu", mode)
}

var tooLong = map[string]error{"date": date.ErrInputTooLong, "roman": roman.ErrInputTooLong, "sem": sem.ErrInputTooLong, "size": size.ErrInputTooLong, "uu": uu.ErrInputTooLong}

// entry is a one-input entry point. limited = the MaxInputLength contract applies to it.
type entry struct {
	name    string
	pkg     string
	rules   []int
	limited bool
	call    func(in []byte, rule int) error
}

var garbageRules = []int{-1, 1 << 30, 0x7fffffff, 0x55}

func ruleSet(n int) []int {
	var r []int
	for i := 0; i < n; i++ {
		r = append(r, i)
	}
	return append(r, garbageRules...)
}

func both[T any](fs func(string, int) (T, error), fb func([]byte, int) (T, error)) func([]byte, int) error {
	return func(in []byte, rule int) error {
		_, e1 := fs(string(in), rule)
		_, e2 := fb(append([]byte(nil), in...), rule)
		if e1 != nil { // string/[]byte agreement is C17's business; here either error is judged for the limit contract
			return e1
		}
		return e2
	}
}

var entries = []entry{
	{"date.DefaultParser", "date", ruleSet(2), true, both(func(s string, r int) (date.Date, error) { return date.DefaultParser(s, date.Rule(r)) }, func(b []byte, r int) (date.Date, error) { return date.DefaultParser(b, date.Rule(r)) })},
	{"date.Date.UnmarshalText", "date", []int{0}, true, func(in []byte, _ int) error { var d date.Date; return d.UnmarshalText(in) }},
	{"date.Date.UnmarshalBinary", "date", []int{0}, false, func(in []byte, _ int) error { var d date.Date; return d.UnmarshalBinary(in) }},
	{"date.Date.Scan", "date", []int{0}, false, func(in []byte, _ int) error {
		var d date.Date
		str, tm := string(in), time.Unix(int64(len(in)), 0)
		for _, src := range []any{in, string(in), nil, len(in), tm, &in, 1.5, struct{}{}, []any{in},
			&str, &tm, &d, (*time.Time)(nil), (*string)(nil), (*[]byte)(nil), (*date.Date)(nil), (*int)(nil), (any)(nil), []byte(nil), time.Time{}, &time.Time{},
			json.RawMessage(in), fmt.Stringer(nil), error(nil), map[string]any(nil), func() {}, make(chan int), uintptr(0), int64(len(in)), true} {
			_ = d.Scan(src)
		}
		return nil
	}},
	{"roman.DefaultParser", "roman", ruleSet(2), true, both(func(s string, r int) (roman.Number, error) { return roman.DefaultParser(s, roman.Rule(r)) }, func(b []byte, r int) (roman.Number, error) { return roman.DefaultParser(b, roman.Rule(r)) })},
	{"roman.Valid", "roman", ruleSet(2), true, func(in []byte, r int) error {
		e1 := roman.Valid(string(in), roman.Rule(r))
		e2 := roman.Valid(in, roman.Rule(r))
		if e1 != nil {
			return e1
		}
		return e2
	}},
	{"roman.Number.UnmarshalText", "roman", []int{0}, true, func(in []byte, _ int) error { var n roman.Number; return n.UnmarshalText(in) }},
	{"sem.DefaultParser", "sem", ruleSet(2), true, both(func(s string, r int) (sem.Ver, error) { return sem.DefaultParser(s, sem.Rule(r)) }, func(b []byte, r int) (sem.Ver, error) { return sem.DefaultParser(b, sem.Rule(r)) })},
	{"sem.Parse", "sem", []int{0}, true, both(func(s string, _ int) (sem.Ver, error) { return sem.Parse(s) }, func(b []byte, _ int) (sem.Ver, error) { return sem.Parse(b) })},
	{"sem.ParseVersion", "sem", []int{0}, true, both(func(s string, _ int) (sem.Ver, error) { return sem.ParseVersion(s) }, func(b []byte, _ int) (sem.Ver, error) { return sem.ParseVersion(b) })},
	{"sem.ParseTag", "sem", []int{0}, true, both(func(s string, _ int) (sem.Ver, error) { return sem.ParseTag(s) }, func(b []byte, _ int) (sem.Ver, error) { return sem.ParseTag(b) })},
	{"sem.Ver.UnmarshalText", "sem", []int{0}, true, func(in []byte, _ int) error { var v sem.Ver; return v.UnmarshalText(in) }},
	{"size.DefaultParser", "size", ruleSet(16), true, both(func(s string, r int) (size.Size, error) { return size.DefaultParser(s, size.Rule(r)) }, func(b []byte, r int) (size.Size, error) { return size.DefaultParser(b, size.Rule(r)) })},
	{"size.Size.UnmarshalText", "size", []int{0}, true, func(in []byte, _ int) error { var s size.Size; return s.UnmarshalText(in) }},
	{"size.Size.UnmarshalJSON", "size", []int{0}, true, func(in []byte, _ int) error { var s size.Size; return s.UnmarshalJSON(in) }},
	{"uu.DefaultParser", "uu", ruleSet(4), true, both(func(s string, r int) (uu.ID, error) { return uu.DefaultParser(s, uu.Rule(r)) }, func(b []byte, r int) (uu.ID, error) { return uu.DefaultParser(b, uu.Rule(r)) })},
	{"uu.ID.UnmarshalText", "uu", []int{0}, true, func(in []byte, _ int) error { var i uu.ID; return i.UnmarshalText(in) }},
}

type oneArg struct {
	Entry  int    `json:"entry"`
	Name   string `json:"entry_name"`
	Rule   int    `json:"rule"`
	Limit  int    `json:"limit_mode"` // 0 default, 1 disabled, 2 one, 3 default+1
	In     mc.Bin `json:"in"`
	Marked bool   `json:"marked"` // the input is filled with the marker text: the error message must not reproduce it
}

const marker = "#MARK#"

func judgeLimit(pkg string, mode int, l int, err error, marked bool, what string) (string, string) {
	lim := limitFor(pkg, mode)
	is := err != nil && errors.Is(err, tooLong[pkg])
	if lim != 0 && l > lim {
		if !is {
			return "over_limit_not_rejected_as_too_long", fmt.Sprintf("%s: input of %d bytes with MaxInputLength=%d gave %v, not %s.ErrInputTooLong", what, l, lim, err, pkg)
		}
		msg := err.Error()
		if marked && strings.Contains(msg, marker) || len(msg) > 300 {
			return "too_long_error_reproduces_input", fmt.Sprintf("%s: the input-too-long message (%d bytes) reproduces the input: %.120q", what, len(msg), msg)
		}
		return "", ""
	}
	if is {
		return "within_limit_rejected_as_too_long", fmt.Sprintf("%s: input of %d bytes with MaxInputLength=%d was rejected with %v", what, l, lim, err)
	}
	return "", ""
}

func probeOne(a oneArg) (string, string) {
	e := entries[a.Entry]
	err := e.call([]byte(a.In), a.Rule)
	if err != nil && strings.HasPrefix(err.Error(), "STRING-BYTES-DISAGREE") {
		return "string_bytes_disagree", fmt.Sprintf("%s(%q, rule=%d): %v", e.name, a.In, a.Rule, err)
	}
	if e.limited {
		return judgeLimit(e.pkg, a.Limit, len(a.In), err, a.Marked, fmt.Sprintf("%s(rule=%d)", e.name, a.Rule))
	}
	return "", ""
}

func setupOne(a oneArg) { setLimits(a.Limit) }

// ---- the same input twice with the limit changed in between
type limChangeArg struct {
	Entry  int    `json:"entry"`
	Name   string `json:"entry_name"`
	In     mc.Bin `json:"in"`
	First  int    `json:"first_limit"` // absolute MaxInputLength values
	Second int    `json:"second_limit"`
}

func setAbs(pkg string, v int) {
	switch pkg {
	case "date":
		date.MaxInputLength = v
	case "roman":
		roman.MaxInputLength = v
	case "sem":
		sem.MaxInputLength = v
	case "size":
		size.MaxInputLength = v
	case "uu":
		uu.MaxInputLength = v
	}
}

func probeLimChange(a limChangeArg) (string, string) {
	defer reset()
	e := entries[a.Entry]
	rule := e.rules[0]
	if e.name == "size.DefaultParser" {
		rule = 6
	}
	setAbs(e.pkg, a.First)
	_ = e.call([]byte(a.In), rule)
	setAbs(e.pkg, a.Second)
	err := e.call([]byte(a.In), rule)
	is := err != nil && errors.Is(err, tooLong[e.pkg])
	over := a.Second != 0 && len(a.In) > a.Second
	if over != is {
		return "limit_change_not_honoured", fmt.Sprintf("%s on a %d-byte input: first call with MaxInputLength=%d, second call with MaxInputLength=%d gives %v (too long expected: %v)", e.name, len(a.In), a.First, a.Second, err, over)
	}
	return "", ""
}

// ---- two-input entry points of package sem
type pairArg struct {
	Limit int    `json:"limit_mode"`
	A     mc.Bin `json:"a"`
	B     mc.Bin `json:"b"`
}

func setupPair(a pairArg) { setLimits(a.Limit) }

func probePair(p pairArg) (string, string) {
	a, b := string(p.A), string(p.B)
	ab, bb := []byte(a), []byte(b)
	// never panics; comparators on arbitrary field strings
	c1 := sem.DefaultComparePreRelease(a, b)
	c2 := sem.DefaultComparePreRelease(ab, bb)
	c3 := sem.DefaultComparePreRelease(a, bb)
	if c1 != c2 || c1 != c3 || c1 < -1 || c1 > 1 {
		return "compare_prerelease_inconsistent", fmt.Sprintf("DefaultComparePreRelease(%q,%q) = %d / %d / %d", a, b, c1, c2, c3)
	}
	va, vb := sem.Ver{Major: 1, PreRelease: a, Build: b}, sem.Ver{Major: 1, PreRelease: b, Build: a}
	_ = va.Compare(vb)
	_ = vb.Compare(va)
	_ = va.Latest(vb)
	_ = va.Valid()
	_ = vb.Valid()
	_, _ = va.String(), vb.StringTag()
	errs := map[string]error{}
	_, errs["Compare"] = sem.Compare(a, b)
	_, errs["Compare(bytes)"] = sem.Compare(ab, bb)
	_, errs["CompareVersion"] = sem.CompareVersion[string, string](a, b)
	_, errs["CompareTag"] = sem.CompareTag(a, bb)
	_, errs["Latest"] = sem.Latest(ab, b)
	_, errs["LatestVersion"] = sem.LatestVersion(a, b)
	_, errs["LatestTag"] = sem.LatestTag(ab, bb)
	lim := limitFor("sem", p.Limit)
	for name, err := range errs {
		is := err != nil && errors.Is(err, sem.ErrInputTooLong)
		over := func(s string) bool { return lim != 0 && len(s) > lim }
		if over(a) && !is {
			return "over_limit_not_rejected_as_too_long", fmt.Sprintf("%s: first text of %d bytes with MaxInputLength=%d gave %v", name, len(a), lim, err)
		}
		if !over(a) && !over(b) && is {
			return "within_limit_rejected_as_too_long", fmt.Sprintf("%s(%q,%q) with MaxInputLength=%d: %v", name, a, b, lim, err)
		}
		if over(b) && err == nil {
			return "over_limit_not_rejected_as_too_long", fmt.Sprintf("%s: second text of %d bytes with MaxInputLength=%d was accepted", name, len(b), lim)
		}
		if over(b) && !over(a) && !is { // when the first text is fine for this helper the only thing wrong is the second text's length
			var e1 error
			switch {
			case strings.HasSuffix(name, "Version"):
				_, e1 = sem.ParseVersion(a)
			case strings.HasSuffix(name, "Tag"):
				_, e1 = sem.ParseTag(a)
			default:
				_, e1 = sem.Parse(a)
			}
			if e1 == nil {
				return "over_limit_not_rejected_as_too_long", fmt.Sprintf("%s: second text of %d bytes with MaxInputLength=%d (first text %q valid) gave %v, which is not sem.ErrInputTooLong", name, len(b), lim, a, err)
			}
		}
	}
	return "", ""
}

// ---- allocation bound on long inputs (serial phase)
type allocArg struct {
	Entry int    `json:"entry"`
	Name  string `json:"entry_name"`
	Rule  int    `json:"rule"`
	Limit int    `json:"limit_mode"`
	Fill  string `json:"fill"`
	Len   int    `json:"len"`
	// In, when set, is a short input that *names* something big (a number with a huge exponent): the work an entry point
	// does must be bounded by the size of its input, not by the magnitude it spells.
	In mc.Bin `json:"in,omitempty"`
}

func setupAlloc(a allocArg) { setLimits(a.Limit) }

// longInput: fill repeated up to n bytes; a fill starting with 'Q' stands for a JSON string: quote, the rest repeated, quote.
func longInput(fill string, n int) []byte {
	if strings.HasPrefix(fill, "Q") && n >= 2 {
		inner := longInput(fill[1:], n-2)
		return append(append([]byte{'"'}, inner...), '"')
	}
	b := make([]byte, 0, n+len(fill))
	for len(b) < n {
		b = append(b, fill...)
	}
	return b[:n]
}

func probeAlloc(a allocArg) (string, string) {
	e := entries[a.Entry]
	in := longInput(a.Fill, a.Len)
	bound := uint64(8<<20) + 512*uint64(a.Len)
	if a.In != "" {
		in = []byte(a.In)
		bound = uint64(1<<20) + 512*uint64(len(in))
	}
	var m0, m1 runtime.MemStats
	runtime.ReadMemStats(&m0)
	t0 := time.Now()
	err := e.call(in, a.Rule)
	el := time.Since(t0)
	runtime.ReadMemStats(&m1)
	alloc := m1.TotalAlloc - m0.TotalAlloc
	if alloc > bound {
		if a.In != "" {
			return "runaway_allocation", fmt.Sprintf("%s on the %d-byte input %q allocated %d bytes (bound %d), took %v, err=%.80v", e.name, len(in), in, alloc, bound, el, err)
		}
		return "runaway_allocation", fmt.Sprintf("%s on %d bytes of %q allocated %d bytes (bound %d), took %v, err=%.80v", e.name, a.Len, a.Fill, alloc, bound, el, err)
	}
	if a.In != "" {
		return "", ""
	}
	if e.limited {
		return judgeLimit(e.pkg, a.Limit, a.Len, err, strings.Contains(a.Fill, marker), e.name)
	}
	return "", ""
}

func main() {
	mc.Main("C18", "every token string up to the stated length over a hostile token alphabet (valid fragments, NUL, 0x80, 0xFF, multi-byte runes, JSON punctuation) into every parsing / validating / comparing entry point under every rule subset (plus out-of-range rule bits) and four MaxInputLength settings; all pairs of shorter token strings into the two-input helpers; structured long runs at limit-1, limit, limit+1, 10x; "+
		"non-trivial = input containing a non-ASCII or control byte", func(r *mc.Run) {
		firstuse.Phase(r, map[string][]string{"date": {"parse", "binary"}, "roman": {"parse", "valid"}, "sem": {"parse", "compare"}, "size": {"parse", "json"}, "uu": {"parse"}})
		r.Reset = reset
		reset()
		p1 := mc.NewProbe(r, "entry", setupOne, probeOne)
		p2 := mc.NewProbe(r, "pair", setupPair, probePair)
		p3 := mc.NewProbe(r, "long_input", setupAlloc, probeAlloc)
		r.Assume("bounded exhaustive enumeration replaces coverage-guided fuzzing: inputs longer than the token-string bound are covered only by the structured long runs")
		r.Assume("a panic inside any entry point is caught per execution and reported with the input; 'runaway allocation' is decided as bytes allocated per call <= 8 MiB + 512 x len(input), measured in a serial phase")
		r.Assume("two-input helpers: too-long is required when the first text is over the limit; when only the second is, any error is accepted (the first may be invalid for another reason)")
		tokens := map[string][]string{
			"date":  {"2024", "-", "02", "29", "0", "9", "a", "\x00", "\x80", "\xff", "\xc2", "\xe2\x80", "é", "€", "😀", " ", "\n", "13", "00"},
			"roman": {"M", "CM", "D", "c", "x", "IV", "i", "v", "a", "0", "\x00", "\x80", "\xff", "\xc2", "\xe2\x80", "é", "ſ", "K", "😀", " "},
			"sem":   {"1", "0", ".", "-", "+", "v", "a", "01", "1.0.0", "\x00", "\x80", "\xff", "\xc2", "\xe2\x80", "é", "€", "😀", " ", "\n", "18446744073709551616"},
			"size":  {"1", "0", " ", "_", " ", "\xa0", "kB", "KiB", "B", "{", "}", "\"", ":", ",", "\"value\"", "\"unit\"", "[", "]", "\\", "\x00", "\xff", "\xc2", "\xe2\x80", "é", "😀", "-", ".", "e", "null"},
			"uu":    {"0", "a", "F", "g", "-", "urn:uuid:", "URN:", "\x00", "\x80", "\xff", "\xc2", "\xe2\x80", "é", "😀", "ed7059f3-6fc0-4b0c-9b7a-2ea5a0b4b8f1", "ed7059f3", "-6fc0-4b0c-9b7a-", "2ea5a0b4b8f1"},
		}
		maxTok := 3
		if !r.Quick() {
			maxTok = 4
		}
		for mode := 0; mode < 4; mode++ {
			mode := mode
			r.Phase(fmt.Sprintf("token strings of length 0..%d into every one-input entry point x every rule subset (+4 out-of-range rule values), limit mode %d (%s)", maxTok, mode, []string{"defaults", "limits disabled (0)", "limits = 1", "defaults + 1"}[mode]), "complete", func() {
				setLimits(mode)
				for ei, e := range entries {
					ei, e := ei, e
					toks := tokens[e.pkg]
					idx := make([]byte, len(toks))
					for i := range idx {
						idx[i] = byte(i)
					}
					L := maxTok
					if e.name == "size.DefaultParser" && L > 3 { // 20 rule values x 27 tokens: keep length 4 for the other entries
						L = 3
					}
					r.Strings(idx, 0, L, func(w *mc.W, ix []byte) {
						var sb strings.Builder
						for _, i := range ix {
							sb.WriteString(toks[i])
						}
						s := sb.String()
						nt := false
						for i := 0; i < len(s); i++ {
							if s[i] >= 0x80 || s[i] < 0x20 {
								nt = true
							}
						}
						for _, rule := range e.rules {
							w.Point()
							if nt {
								w.NonTrivial()
							}
							p1.Do(w, oneArg{Entry: ei, Name: e.name, Rule: rule, Limit: mode, In: mc.Bin(s)})
						}
					})
					r.Serial(func(w *mc.W) { w.Outcome("entry " + e.name) })
				}
				reset()
			})
		}
		r.Sample("entry", oneArg{Entry: 7, Name: "sem.DefaultParser", Rule: -1, Limit: 2, In: "v\xff😀"})
		// every substring (all start/end offsets) of valid texts, and each valid text extended by 1..12 bytes: every input length around the
		// lengths the parsers dispatch on is hit with valid-looking content
		valids := map[string][]string{
			"date":  {"2024-02-29", "20240229", "123456789-12-31", "1234567891231"},
			"roman": {"MMMCMXCIX", "mmmdccclxxxviii", "MDCCCCLXXXXVIIII"},
			"sem":   {"v1.2.3-rc.1+build.5", "18446744073709551615.0.0-a.b", "1.0.0-0.3.7+exp.sha.5114f85"},
			"size":  {"12", "1024", "7 B", "1 024 KiB", `{"value":1,"unit":"KiB","x":[1,{"a":null}]}`, `"18 446 744 073 709 551 615 B"`, "16EiB", "1.01KiB", "0.5 GiB", "1e3", "1.0e+2 kB", `"1.50 MB"`, `{"x":[[1],2],"value":1,"unit":"KiB"}`, `{"y":{"a":[[],{}]},"unit":"B","value":0}`},
			"uu":    {"urn:uuid:ed7059f3-6fc0-4b0c-9b7a-2ea5a0b4b8f1", "URN:uuid:ED7059F3-6FC0-4B0C-9B7A-2EA5A0B4B8F1", "ed7059f3-6fc0-4b0c-9b7a-2ea5a0b4b8f1"},
		}
		for _, mode := range []int{0, 1, 3} {
			mode := mode
			r.Phase(fmt.Sprintf("every substring of valid texts, every extension by 1..12 bytes on one side (10 fill bytes incl. white space) and by 1..4 bytes on both sides, into every one-input entry point x rule subsets, limit mode %d", mode), "complete for the listed texts", func() {
				setLimits(mode)
				r.Parallel(int64(len(entries)), 1, func(w *mc.W, ei int64) {
					e := entries[ei]
					seen := map[string]bool{}
					do := func(s string) {
						if seen[s] {
							return
						}
						seen[s] = true
						for _, rule := range e.rules {
							w.Point()
							p1.Do(w, oneArg{Entry: int(ei), Name: e.name, Rule: rule, Limit: mode, In: mc.Bin(s)})
						}
					}
					for _, v := range valids[e.pkg] {
						for i := 0; i <= len(v); i++ {
							for j := i; j <= len(v); j++ {
								do(v[i:j])
							}
						}
						for _, fill := range []string{"0", "a", "-", "\xff", " ", "\n", "\t", ".", "9", "\x00"} {
							for k := 1; k <= 12; k++ {
								do(v + strings.Repeat(fill, k))
								do(strings.Repeat(fill, k) + v)
							}
							for k1 := 1; k1 <= 4; k1++ {
								for k2 := 1; k2 <= 4; k2++ {
									do(strings.Repeat(fill, k1) + v + strings.Repeat(fill, k2))
								}
							}
						}
						do(v + "\r\n")
						do(v + "\r\n ")
						do(" \t" + v + "\r\n ")
					}
				})
				r.Serial(func(w *mc.W) { w.Outcome("substrings") })
				reset()
			})
		}
		// run-length inflation: one byte of a valid text repeated 2..130 times (a digit run, a fraction, a separator run of any length)
		for _, mode := range []int{0, 1} {
			mode := mode
			r.Phase(fmt.Sprintf("run-length inflation of the valid texts (each byte in turn repeated 2..130 times) into every one-input entry point x rule subsets, limit mode %d", mode), "complete for the listed texts", func() {
				setLimits(mode)
				r.Parallel(int64(len(entries)), 1, func(w *mc.W, ei int64) {
					e := entries[ei]
					for _, v := range valids[e.pkg] {
						for i := 0; i < len(v); i++ {
							if i > 0 && v[i] == v[i-1] {
								continue // same run as the previous position
							}
							for l := 2; l <= 130; l++ {
								m := v[:i] + strings.Repeat(v[i:i+1], l) + v[i+1:]
								for _, rule := range e.rules {
									if len(e.rules) > 8 && rule != 0 && rule != 6 && rule != 14 && rule != 15 && rule != -1 {
										continue
									}
									w.Point()
									w.NonTrivial()
									p1.Do(w, oneArg{Entry: int(ei), Name: e.name, Rule: rule, Limit: mode, In: mc.Bin(m)})
								}
							}
						}
					}
				})
				r.Serial(func(w *mc.W) { w.Outcome("inflated runs") })
				reset()
			})
		}
		// 1-deviation mutants of the valid texts (all 256 byte values substituted / inserted at every position, every deletion)
		for _, mode := range []int{0, 1} {
			mode := mode
			r.Phase(fmt.Sprintf("1-deviation mutants (all 256 byte values) of the valid texts into every one-input entry point x rule subsets, limit mode %d", mode), "complete for 1 deviation", func() {
				setLimits(mode)
				r.Parallel(int64(len(entries)), 1, func(w *mc.W, ei int64) {
					e := entries[ei]
					for _, v := range valids[e.pkg] {
						mc.Mutations1([]byte(v), mc.AllBytes, func(m []byte) {
							for _, rule := range e.rules {
								if len(e.rules) > 8 && rule != 0 && rule != 6 && rule != 14 && rule != 15 && rule != -1 {
									continue
								}
								w.Point()
								w.NonTrivial()
								p1.Do(w, oneArg{Entry: int(ei), Name: e.name, Rule: rule, Limit: mode, In: mc.Bin(m)})
							}
						})
					}
				})
				r.Serial(func(w *mc.W) { w.Outcome("mutants") })
				reset()
			})
		}
		plc := mc.NewProbe(r, "limit_change", nil, probeLimChange)
		r.Phase("serial: the same valid input parsed twice with MaxInputLength changed in between (0, len-1, len, len+1, default), every limited entry point", "complete for the listed inputs", func() {
			r.Serial(func(w *mc.W) {
				for ei, e := range entries {
					if !e.limited {
						continue
					}
					ins := append([]string{}, valids[e.pkg]...)
					ins = append(ins, map[string]string{"date": "12022-08-07", "roman": strings.Repeat("M", 130), "sem": "1.0.0-" + strings.Repeat("a", 1030), "size": strings.Repeat("0", 130) + "1", "uu": "urn:uuid:ed7059f3-6fc0-4b0c-9b7a-2ea5a0b4b8f1"}[e.pkg])
					for _, in := range ins {
						ls := []int{0, len(in) - 1, len(in), len(in) + 1, defaults[e.pkg], 1}
						for _, l1 := range ls {
							for _, l2 := range ls {
								if l1 < 0 || l2 < 0 {
									continue
								}
								w.Point()
								plc.Do(w, limChangeArg{ei, e.name, mc.Bin(in), l1, l2})
							}
						}
					}
				}
			})
		})
		// pairs
		var pool []string
		pt := []string{"1", "0", ".", "-", "a", "é", "éé", "x", "\xff", "\x00", "😀", "1.0.0", "v1.0.0", "1.0.0-", "+", "01", "ééé", "éééx", "€"}
		var gen func(cur string, n int)
		gen = func(cur string, n int) {
			pool = append(pool, cur)
			if n == 2 {
				return
			}
			for _, t := range pt {
				gen(cur+t, n+1)
			}
		}
		gen("", 0)
		for _, mode := range []int{0, 1, 2} {
			mode := mode
			r.Phase(fmt.Sprintf("all %d^2 pairs of token strings (length <= 2 tokens) into DefaultComparePreRelease, Ver.Compare/Latest/Valid on raw fields, Compare*, Latest*; limit mode %d", len(pool), mode), "complete", func() {
				setLimits(mode)
				r.Parallel(int64(len(pool)), 1, func(w *mc.W, i int64) {
					for _, b := range pool {
						w.Point()
						w.NonTrivial()
						p2.Do(w, pairArg{Limit: mode, A: mc.Bin(pool[i]), B: mc.Bin(b)})
					}
				})
				r.Serial(func(w *mc.W) { w.Outcome("pairs") })
				reset()
			})
		}
		r.Sample("pair", pairArg{Limit: 0, A: "ééé", B: "éééx"})
		// long runs
		fills := map[string][]string{
			"date":  {"2", marker, "2024-02-29", "\xff"},
			"roman": {"M", marker, "I", "\xff", "mcm"},
			"sem":   {"1", marker, "1.0.0-a.", "v", "\xff", "1.0.0+" + marker},
			"size":  {"1", marker, "1 ", "{\"x\":[", "\"", "[[[[", "{\"a\":{", " ", "1_", "\xff", "Q\xff", "Q\xc3", "Q\\u0031"},
			"uu":    {"a", marker, "urn:uuid:", "-", "\xff"},
		}
		r.Phase("long runs: per entry point and limit mode, inputs of length limit-1, limit, limit+1, 10 x limit (limit disabled: default+1, 10 x default, 100000) built from valid-shaped and marker fillers; allocation bound", "complete grid (serial)", func() {
			r.Serial(func(w *mc.W) {
				for mode := 0; mode < 4; mode++ {
					setLimits(mode)
					for ei, e := range entries {
						if e.name == "date.Date.Scan" {
							continue
						}
						lim := limitFor(e.pkg, mode)
						lens := []int{lim - 2, lim - 1, lim, lim + 1, lim + 2, lim + 3, lim + 4, 10 * lim, 2*lim + 3}
						if lim == 0 {
							lens = []int{defaults[e.pkg] + 1, 10 * defaults[e.pkg], 100000}
						}
						for _, l := range lens {
							if l < 0 {
								continue
							}
							for _, f := range fills[e.pkg] {
								for _, rule := range []int{e.rules[0], e.rules[len(e.rules)-1], e.rules[len(e.rules)/2]} {
									w.Point()
									w.NonTrivial()
									p3.Do(w, allocArg{Entry: ei, Name: e.name, Rule: rule, Limit: mode, Fill: f, Len: l})
								}
							}
						}
					}
				}
				w.Outcome("long runs")
				reset()
			})
		})
		r.Phase("two-input helpers: one operand valid and within the limit, the other valid-shaped but longer than the limit (either side), limits 8 and the default: the answer is the input-too-long error", "complete for the listed pairs", func() {
			r.Serial(func(w *mc.W) {
				for _, mode := range []int{4, 0} {
					setLimits(mode)
					lim := limitFor("sem", mode)
					if lim == 0 {
						continue
					}
					for _, short := range []string{"v1.0.0", "1.0.0", "v1.2.3-a", "0.0.0+b"} {
						if len(short) > lim {
							continue
						}
						for _, long := range []string{"v1.0.0-" + strings.Repeat("a", lim), "1.0.0+" + strings.Repeat("0", lim), strings.Repeat("9", lim+1), "v" + strings.Repeat("1.", lim)} {
							w.Point()
							w.NonTrivial()
							p2.Do(w, pairArg{Limit: mode, A: mc.Bin(short), B: mc.Bin(long)})
							p2.Do(w, pairArg{Limit: mode, A: mc.Bin(long), B: mc.Bin(short)})
							p2.Do(w, pairArg{Limit: mode, A: mc.Bin(long), B: mc.Bin(long)})
						}
					}
				}
				w.Outcome("two-input limit")
				reset()
			})
		})
		r.Phase("short inputs that spell a huge magnitude (exponents of 3 000 000 in every position a number can take, in text, JSON number, string and object form) into every one-input entry point x every rule: allocation bound 1 MiB + 512 x len", "complete grid (serial)", func() {
			r.Serial(func(w *mc.W) {
				var ins []string
				for _, n := range []string{"1e3000000", "1E3000000", "1e+3000000", "1.0e3000000", "0e3000000", "1e-3000000", "9.9E+3000000", "1e3000000kB", "1 e3000000", "1e3000000 B"} {
					ins = append(ins, n, `"`+n+`"`, `{"value":`+n+`,"unit":"B"}`, `{"unit":"kB","value":`+n+`}`, `{"value":"`+n+`","unit":"B"}`, `{"value":1,"unit":"B","x":`+n+`}`, `[`+n+`]`)
				}
				setLimits(0)
				for ei, e := range entries {
					if e.name == "date.Date.Scan" {
						continue
					}
					for _, in := range ins {
						for _, rule := range e.rules {
							w.Point()
							w.NonTrivial()
							p3.Do(w, allocArg{Entry: ei, Name: e.name, Rule: rule, In: mc.Bin(in)})
						}
					}
				}
				w.Outcome("huge magnitudes")
				reset()
			})
		})
		r.Sample("long", allocArg{Entry: 12, Name: "size.DefaultParser", Rule: 6, Limit: 1, Fill: "{\"x\":[", Len: 100000})
	})
}
