// C01: date text round-trip is lossless and canonical.
package main

import (
	"encoding/json"
	"encoding/xml"
	"fmt"
	"time"
	_ "time/tzdata"

	"go.lstv.dev/util/date"
	"verif/firstuse"
	"verif/libdefaults"
	"verif/mc"
	"verif/oracle"
)

type arg struct {
	Y      int64  `json:"y"`
	M      int    `json:"m"`
	D      int    `json:"d"`
	Basic  bool   `json:"basic"`
	MaxLen int    `json:"max_input_length"`
	Heavy  bool   `json:"heavy"`                // also json/xml/containers
	Zone   string `json:"time_local,omitempty"` // the process's local zone during the call ("" = unchanged)
}

var defaultLocal = time.Local

type xmlAttr struct {
	XMLName xml.Name  `xml:"x"`
	D       date.Date `xml:"d,attr"`
}
type xmlElem struct {
	XMLName xml.Name  `xml:"x"`
	D       date.Date `xml:"d"`
}
type jsonBox struct {
	A date.Date            `json:"a"`
	P *date.Date           `json:"p"`
	L []date.Date          `json:"l"`
	M map[string]date.Date `json:"m"`
}

func reset() {
	time.Local = defaultLocal
	libdefaults.Date()
}

func setup(a arg) {
	date.MaxInputLength = a.MaxLen
	if a.MaxLen == -1 { // default configuration: whatever the library starts with (the oracle assumes the documented 10)
		date.MaxInputLength = libdefaults.DateMaxInputLength
	}
	time.Local = defaultLocal
	if a.Zone != "" {
		if loc, err := time.LoadLocation(a.Zone); err == nil {
			time.Local = loc
		}
	}
}

func probe(a arg) (string, string) {
	d := date.New(int(a.Y), date.Month(a.M), a.D)
	if y, m, dd := d.Date(); int64(y) != a.Y || int(m) != a.M || dd != a.D {
		return "new_components", fmt.Sprintf("date.New(%d,%d,%d).Date() = %d,%d,%d", a.Y, a.M, a.D, y, m, dd)
	}
	if d.Year() != int(a.Y) || int(d.Month()) != a.M || d.Day() != a.D {
		return "accessors", fmt.Sprintf("Year/Month/Day = %d,%d,%d", d.Year(), d.Month(), d.Day())
	}
	want := oracle.DateText(a.Y, a.M, a.D, a.Basic)
	ext := oracle.DateText(a.Y, a.M, a.D, false)
	f := date.Format(0)
	if a.Basic {
		f = date.FormatBasic
	}
	// ---- output paths
	out, err := date.DefaultFormatter(nil, d, f)
	if err != nil || string(out) != want {
		return "formatter_text", fmt.Sprintf("DefaultFormatter = %q, %v; want %q", out, err, want)
	}
	if a.D == 1 || a.D >= 28 || a.Heavy { // the text must not depend on the destination buffer's spare capacity
		for _, spare := range []int{1, 8, 10, 11, 16, 64} {
			out, err := date.DefaultFormatter(make([]byte, 0, spare), d, f)
			if err != nil || string(out) != want {
				return "formatter_text_with_spare_capacity", fmt.Sprintf("DefaultFormatter(make([]byte,0,%d)) = %q, %v; want %q", spare, out, err, want)
			}
		}
	}
	if a.Basic {
		if s := fmt.Sprintf("%b", d); s != want {
			return "verb_b", fmt.Sprintf("%%b = %q want %q", s, want)
		}
	} else {
		if b, err := d.MarshalText(); err != nil || string(b) != want {
			return "marshaltext", fmt.Sprintf("MarshalText = %q, %v; want %q", b, err, want)
		}
		if s := d.String(); s != want {
			return "string", fmt.Sprintf("String = %q want %q", s, want)
		}
		if s := fmt.Sprintf("%s|%e|%v", d, d, d); s != want+"|"+want+"|"+want {
			return "verbs", fmt.Sprintf("%%s|%%e|%%v = %q want %q", s, want)
		}
		if s := fmt.Sprint(d); s != want {
			return "sprint", fmt.Sprintf("Sprint = %q want %q", s, want)
		}
	}
	if a.MaxLen == -1 {
		a.MaxLen = 10
	}
	fits := a.MaxLen == 0 || len(want) <= a.MaxLen
	// ---- input paths on the produced text
	chk := func(path string, got date.Date, err error) (string, string) {
		if fits {
			if err != nil {
				return "parse_" + path + "_rejected", fmt.Sprintf("%s(%q) failed: %v", path, want, err)
			}
			if got != d || !got.Equal(d) {
				return "parse_" + path + "_value", fmt.Sprintf("%s(%q) = %v want %v", path, want, got, d)
			}
			if y, m, dd := got.Date(); int64(y) != a.Y || int(m) != a.M || dd != a.D {
				return "parse_" + path + "_components", fmt.Sprintf("%s(%q).Date() = %d,%d,%d", path, want, y, m, dd)
			}
		} else if err == nil && got != d {
			return "parse_" + path + "_wrong_value_over_limit", fmt.Sprintf("%s(%q) = %v want %v or an error", path, want, got, d)
		}
		return "", ""
	}
	g, err := date.DefaultParser(want, 0)
	if k, dt := chk("DefaultParser[string]", g, err); k != "" {
		return k, dt
	}
	g, err = date.DefaultParser([]byte(want), 0)
	if k, dt := chk("DefaultParser[[]byte]", g, err); k != "" {
		return k, dt
	}
	if !a.Basic {
		g, err = date.DefaultParser(want, date.RuleDisableBasic)
		if k, dt := chk("DefaultParser[string,RuleDisableBasic]", g, err); k != "" {
			return k, dt
		}
	}
	var u date.Date
	err = u.UnmarshalText([]byte(want))
	if k, dt := chk("UnmarshalText", u, err); k != "" {
		return k, dt
	}
	// the same bytes handed to every []byte input path one after the other (a caller that keeps its text): each path must
	// still see the text the formatter produced
	if a.D == 1 || a.D >= 28 || a.Heavy {
		shared := []byte(want)
		g, err = date.DefaultParser(shared, 0)
		if k, dt := chk("DefaultParser[[]byte] on the caller's kept text", g, err); k != "" {
			return k, dt
		}
		var u2 date.Date
		err = u2.UnmarshalText(shared)
		if k, dt := chk("UnmarshalText on the text a parser has already read", u2, err); k != "" {
			return k, dt
		}
		g, err = date.DefaultParser(shared, 0)
		if k, dt := chk("DefaultParser[[]byte] on the text two parsers have already read", g, err); k != "" {
			return k, dt
		}
	}
	if !a.Heavy {
		return "", ""
	}
	// ---- JSON
	q := `"` + want + `"`
	if !a.Basic {
		jb, err := json.Marshal(d)
		if err != nil || string(jb) != `"`+ext+`"` {
			return "json_marshal", fmt.Sprintf("json.Marshal = %s, %v", jb, err)
		}
		box := jsonBox{A: d, P: &d, L: []date.Date{d, d}, M: map[string]date.Date{"k": d}}
		jb, err = json.Marshal(box)
		wantBox := `{"a":` + q + `,"p":` + q + `,"l":[` + q + `,` + q + `],"m":{"k":` + q + `}}`
		if err != nil || string(jb) != wantBox {
			return "json_marshal_containers", fmt.Sprintf("json.Marshal(box) = %s, %v; want %s", jb, err, wantBox)
		}
		// Date as a map key uses MarshalText as well
		jb, err = json.Marshal(map[date.Date]int{d: 1})
		if err != nil || string(jb) != `{`+q+`:1}` {
			return "json_marshal_mapkey", fmt.Sprintf("json.Marshal(map[Date]int) = %s, %v", jb, err)
		}
	}
	var ju date.Date
	err = json.Unmarshal([]byte(q), &ju)
	if k, dt := chk("json.Unmarshal", ju, err); k != "" {
		return k, dt
	}
	var bx jsonBox
	err = json.Unmarshal([]byte(`{"a":`+q+`,"p":`+q+`,"l":[`+q+`],"m":{"k":`+q+`}}`), &bx)
	if err == nil && (bx.P == nil || len(bx.L) != 1 || len(bx.M) != 1) {
		return "json_containers_shape", "container fields missing after json.Unmarshal"
	}
	if err == nil {
		for _, v := range []date.Date{bx.A, *bx.P, bx.L[0], bx.M["k"]} {
			if k, dt := chk("json.Unmarshal(containers)", v, nil); k != "" {
				return k, dt
			}
		}
	} else if k, dt := chk("json.Unmarshal(containers)", date.Date{}, err); k != "" {
		return k, dt
	}
	// ---- XML
	if !a.Basic {
		xb, err := xml.Marshal(xmlElem{D: d})
		if err != nil || string(xb) != `<x><d>`+ext+`</d></x>` {
			return "xml_marshal_element", fmt.Sprintf("xml.Marshal = %s, %v", xb, err)
		}
		xb, err = xml.Marshal(xmlAttr{D: d})
		if err != nil || string(xb) != `<x d="`+ext+`"></x>` {
			return "xml_marshal_attr", fmt.Sprintf("xml.Marshal(attr) = %s, %v", xb, err)
		}
	}
	var xe xmlElem
	err = xml.Unmarshal([]byte(`<x><d>`+want+`</d></x>`), &xe)
	if k, dt := chk("xml.Unmarshal(element)", xe.D, err); k != "" {
		return k, dt
	}
	var xa xmlAttr
	err = xml.Unmarshal([]byte(`<x d="`+want+`"></x>`), &xa)
	if k, dt := chk("xml.Unmarshal(attr)", xa.D, err); k != "" {
		return k, dt
	}
	return "", ""
}

// two results in flight: a text handed out by one call must still read the same after a later call
type flightArg struct {
	A [3]int `json:"a"`
	B [3]int `json:"b"`
}

func probeFlight(p flightArg) (string, string) {
	da, db := date.New(p.A[0], date.Month(p.A[1]), p.A[2]), date.New(p.B[0], date.Month(p.B[1]), p.B[2])
	wa, wb := oracle.DateText(int64(p.A[0]), p.A[1], p.A[2], false), oracle.DateText(int64(p.B[0]), p.B[1], p.B[2], false)
	wbBasic := oracle.DateText(int64(p.B[0]), p.B[1], p.B[2], true)
	ta, _ := da.MarshalText()
	tb, _ := db.MarshalText()
	if string(ta) != wa || string(tb) != wb {
		return "text_overwritten_by_later_call", fmt.Sprintf("a.MarshalText() then b.MarshalText(): the two texts now read %q and %q, want %q and %q", ta, tb, wa, wb)
	}
	fa, _ := date.DefaultFormatter(nil, da, 0)
	fb, _ := date.DefaultFormatter(nil, db, date.FormatBasic)
	if string(fa) != wa || string(fb) != wbBasic {
		return "text_overwritten_by_later_call", fmt.Sprintf("DefaultFormatter(nil,a) then DefaultFormatter(nil,b,basic): the two texts now read %q and %q, want %q and %q", fa, fb, wa, wbBasic)
	}
	var g date.Date
	if err := g.UnmarshalText(ta); err != nil || g != da {
		return "text_overwritten_by_later_call", fmt.Sprintf("the text kept from a.MarshalText() parses to %v, %v after later calls; want %v", g, err, da)
	}
	// the caller may write into a returned slice: later calls must not be affected by that
	defer mc.Scribble(ta, tb, fa, fb)()
	ta2, _ := da.MarshalText()
	fb2, _ := date.DefaultFormatter(nil, db, date.FormatBasic)
	if string(ta2) != wa || string(fb2) != wbBasic || da.String() != wa {
		return "text_affected_by_caller_writing_into_earlier_result", fmt.Sprintf("after the caller overwrote earlier results: MarshalText = %q (want %q), DefaultFormatter(basic) = %q (want %q), String = %q", ta2, wa, fb2, wbBasic, da.String())
	}
	return "", ""
}

func main() {
	mc.Main("C01", "every real calendar date of the stated year range x {extended, basic} x every output path x every input path; "+
		"a point is one (date, format, MaxInputLength); non-trivial = month end, leap day, year boundary or 5+ digit year", func(r *mc.Run) {
		firstuse.Phase(r, map[string][]string{"date": {"format", "parse"}})
		r.Reset = reset
		reset()
		p := mc.NewProbe(r, "roundtrip", setup, probe)
		r.Assume("dates are constructed with date.New (the library's constructor); its result is checked against the written components first")
		r.Assume("expected texts are built digit by digit by the oracle (no fmt, no package time)")
		r.Assume("years beyond 9999 are covered for a stated set of years only (all their days), not all 10^9 years")

		pf := mc.NewProbe(r, "two_results_in_flight", nil, probeFlight)
		r.Phase("serial: two formatted texts in flight (a result must survive later calls), all ordered pairs of 12 dates", "complete for the listed dates", func() {
			r.Serial(func(w *mc.W) {
				ds := [][3]int{{2020, 2, 29}, {1999, 12, 31}, {1, 1, 1}, {9999, 12, 31}, {0, 1, 1}, {2024, 10, 20}, {2002, 8, 7}, {1900, 3, 1}, {2000, 2, 29}, {1234, 5, 6}, {4321, 11, 30}, {2024, 1, 10}}
				for _, a := range ds {
					for _, b := range ds {
						w.Point()
						w.NonTrivial()
						pf.Do(w, flightArg{a, b})
					}
				}
				w.Outcome("in flight")
			})
		})
		// all dates of years 0..9999: build the index year -> first ordinal once
		perYear := func(w *mc.W, y int64, maxLen int, heavyAll bool) {
			for m := 1; m <= 12; m++ {
				dim := oracle.DaysIn(y, m)
				for d := 1; d <= dim; d++ {
					edge := d == 1 || d >= 28
					for _, basic := range []bool{false, true} {
						w.Point()
						if edge {
							w.NonTrivial()
						}
						p.Do(w, arg{Y: y, M: m, D: d, Basic: basic, MaxLen: maxLen, Heavy: heavyAll || edge})
					}
				}
			}
			w.Outcome(fmt.Sprintf("year_digits=%d leap=%v", len(oracle.DateText(y, 1, 1, true))-4, oracle.IsLeap(y)))
		}
		heavyAll := !r.Quick()
		r.Phase("years 0000-9999, all days, both formats, MaxInputLength=10", "complete; json/xml/container paths on "+map[bool]string{true: "all days", false: "day 1 and days>=28 of every month"}[heavyAll], func() {
			setup(arg{MaxLen: -1})
			r.Parallel(10000, 8, func(w *mc.W, y int64) { perYear(w, y, -1, heavyAll) })
			r.Sample("date", arg{Y: 2024, M: 2, D: 29, Basic: true, MaxLen: 10, Heavy: true})
		})
		for _, z := range mc.Zones {
			z := z
			r.Phase(fmt.Sprintf("time.Local = %s: every day of 1880-2040, both formats, text paths", z), "complete for the listed years", func() {
				setup(arg{MaxLen: 10, Zone: z})
				r.Parallel(161, 1, func(w *mc.W, i int64) {
					y := 1880 + i
					for m := 1; m <= 12; m++ {
						for d := 1; d <= oracle.DaysIn(y, m); d++ {
							for _, basic := range []bool{false, true} {
								w.Point()
								p.Do(w, arg{Y: y, M: m, D: d, Basic: basic, MaxLen: 10, Zone: z})
							}
						}
					}
				})
				reset()
			})
		}
		// big years
		var years []int64
		for dg := 5; dg <= 9; dg++ {
			lo := int64(1)
			for i := 1; i < dg; i++ {
				lo *= 10
			}
			hi := lo*10 - 1
			for _, y := range []int64{lo, lo + 1, lo + 2, lo + 3, lo + 4, lo + 100, lo + 400, hi - 4, hi - 3, hi - 2, hi - 1, hi, lo*2 + 96, lo*3 + 100, lo*4 + 400, lo * 9} {
				years = append(years, y)
			}
		}
		years = append(years, 999999999, 123456789, 20000, 12345, 99999)
		for _, ml := range []int{0, 11, 12, 13, 14, 15, 10} {
			ml := ml
			r.Phase(fmt.Sprintf("5-9 digit years (%d years), all days, both formats, MaxInputLength=%d", len(years), ml), "stated year set; round trip required iff limit is 0 or >= len(text)", func() {
				setup(arg{MaxLen: ml})
				r.Parallel(int64(len(years)), 1, func(w *mc.W, i int64) { perYear(w, years[i], ml, false) })
			})
		}
		r.Sample("big year", arg{Y: 999999999, M: 12, D: 31, Basic: false, MaxLen: 0})
		reset()
	})
}
