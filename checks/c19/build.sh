#!/bin/bash
# Builds the C19 harness against /repo's working tree with the sync shim injected through -overlay (/repo untouched).
# usage: build.sh <output binary>
set -eu
out=$(readlink -f "$1" 2>/dev/null || echo "$1")
case "$out" in /*) ;; *) out="$PWD/$out";; esac
V=/verif
export GOFLAGS=-mod=mod GOPROXY=off GOSUMDB=off GOTOOLCHAIN=local
mkdir -p $V/.work
W=$(mktemp -d $V/.work/c19.XXXXXX)
trap 'rm -rf "$W"' EXIT
mkdir -p "$W/uu"
json="$W/overlay.json"
{
  echo '{"Replace":{'
  first=1
  nsync=0
  for f in /repo/uu/*.go; do
    case "$f" in *_test.go) continue;; esac
    if grep -qE '^\s*(import\s+)?(\w+\s+)?"sync(/atomic)?"' "$f"; then
      nsync=$((nsync+1))
      sed -E -e 's#^(\s*(import\s+)?)"sync"#\1sync "go.lstv.dev/util/verifsync"#' -e 's#^(\s*(import\s+)?)"sync/atomic"#\1atomic "go.lstv.dev/util/verifsync/atomic"#' -e 's#^(\s*(import\s+)?)(\w+)\s+"sync/atomic"#\1\3 "go.lstv.dev/util/verifsync/atomic"#' -e 's#^(\s*(import\s+)?)(\w+)\s+"sync"#\1\3 "go.lstv.dev/util/verifsync"#' "$f" > "$W/uu/$(basename "$f")"
      [ $first = 1 ] || echo ','
      first=0
      printf '"%s":"%s"' "$f" "$W/uu/$(basename "$f")"
    fi
  done
  [ $first = 1 ] || echo ','
  printf '"/repo/uu/verif_hooks.go":"%s",\n' "$W/uu/verif_hooks.go"
  printf '"/repo/verifsync/atomic/atomic.go":"%s",\n' "$V/overlay/verifsync/atomic/atomic.go"
  printf '"/repo/verifsync/sched.go":"%s"\n' "$V/overlay/verifsync/sched.go"
  echo '}}'
} > "$json"
if [ "$nsync" = 0 ]; then echo "harness cannot bind: no file of package uu imports \"sync\" or \"sync/atomic\" any more (channels and other mechanisms are not intercepted)" >&2; exit 3; fi
# hooks file: the mutex is re-created only if the tree still has it; the generator variable is required
if ! grep -qE '^\s*random\s*=' /repo/uu/*.go; then echo "harness cannot bind: package uu has no package-level variable 'random' any more" >&2; exit 3; fi
if grep -qE '^\s*randomMutex\s*=\s*sync\.Mutex' /repo/uu/*.go; then cp "$V/overlay/uu/verif_hooks.go" "$W/uu/verif_hooks.go"; else sed -e '/randomMutex = sync.Mutex{}/d' -e '/verifsync"/d' "$V/overlay/uu/verif_hooks.go" > "$W/uu/verif_hooks.go"; fi
cd $V
go build -tags verif -overlay "$json" -o "$out" ./checks/c19
# free-running race-detector supplement (plain build, real sync, no overlay)
if [ "${C19_RACE:-1}" = 1 ]; then
  go build -race -o "$out.race" ./checks/x19race
fi
