#!/bin/bash
# Builds the C19 harness against /repo's working tree with the sync shims injected through -overlay (/repo untouched).
# usage: build.sh <output binary>
set -eu
out=$(readlink -f "$1" 2>/dev/null || echo "$1")
case "$out" in /*) ;; *) out="$PWD/$out";; esac
V=${VERIF_SRC:-/verif}
export GOFLAGS=-mod=mod GOPROXY=off GOSUMDB=off GOTOOLCHAIN=local
mkdir -p $V/.work $V/.bin
W=$(mktemp -d $V/.work/c19.XXXXXX)
trap 'rm -rf "$W"' EXIT
cd $V
go build -o $V/.bin/c19gen ./checks/c19/gen
$V/.bin/c19gen "$W" "$W/overlay.json"
go build -tags verif -overlay "$W/overlay.json" -o "$out" ./checks/c19
# free-running race-detector supplement (plain build, real sync, no overlay)
if [ "${C19_RACE:-1}" = 1 ]; then
  go build -race -o "$out.race" ./checks/x19race
fi
