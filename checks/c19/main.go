// C19: random UUIDs are always version 4 / variant 1 and generation is thread-safe.
// Built only through checks/c19/build.sh (go build -tags verif -overlay ...).
package main

import (
	"context"
	"fmt"
	"math/bits"
	"os"
	"os/exec"
	"runtime"
	"sort"
	"strings"
	"time"

	"go.lstv.dev/util/uu"
	sched "go.lstv.dev/util/verifsync"
	vrand "go.lstv.dev/util/verifsync/rand"
	"verif/mc"
)

// ------------------------------------------------------------ scripted generators (see overlay/verifsync/rand)
// Every generator the code under test builds through math/rand, math/rand/v2 or crypto/rand is a scripted one whose values
// the harness chooses; installScript starts a fresh execution: all package-level state of uu is re-initialised.
func installScript(values func(src *vrand.Scripted, i int) int64) {
	vrand.Reset()
	vrand.Real = false
	vrand.Values = values
	uu.VerifReset()
}

// distinct 63-bit values per draw index, with bits spread over the whole word
func spread(i int) int64 {
	x := uint64(i+1) * 0x9E3779B97F4A7C15
	x ^= x >> 29
	return int64(x & 0x7fffffffffffffff)
}

type fixedChooser struct {
	trail []int
	pos   int
	bad   bool
}

func (f *fixedChooser) Choose(n int, _ bool) int {
	v := 0
	if f.pos < len(f.trail) {
		v = f.trail[f.pos]
	}
	f.pos++
	if v >= n {
		f.bad = true
		v = 0
	}
	return v
}

type ctxChooser struct{ c *mc.Ctx }

func (c ctxChooser) Choose(n int, preemption bool) int {
	if preemption {
		return c.c.Deviate(n)
	}
	return c.c.Choose(n)
}

type harness struct {
	name    string
	threads int
	calls   int
}

var harnesses = map[string]harness{
	"2x1": {"2x1", 2, 1}, "2x2": {"2x2", 2, 2}, "3x1": {"3x1", 3, 1}, "2x3": {"2x3", 2, 3}, "3x2": {"3x2", 3, 2}, "4x1": {"4x1", 4, 1}, "4x2": {"4x2", 4, 2}, "3x3": {"3x3", 3, 3},
}

// abortRun is mc.Run.Abort of the current run (set in main).
var abortRun func(format string, a ...any)

type execResult struct {
	outcome  string // "" = all invariants hold
	detail   string
	schedule []int
	points   int
	final    string // canonical final observation (for counting distinct outcomes)
}

func execute(h harness, ch sched.Chooser, procs int) execResult {
	if procs > 0 { // GOMAXPROCS is a configuration the code under test can observe
		defer runtime.GOMAXPROCS(runtime.GOMAXPROCS(procs))
	}
	// distinct values per (generator, draw); the seed the code passes (usually the clock) is deliberately not used:
	// an execution must be a function of the schedule alone
	installScript(func(src *vrand.Scripted, i int) int64 {
		return spread(i) ^ int64(uint64(src.Index)*0x2545F4914F6CDD1D>>1)
	})
	ids := make([][]uu.ID, h.threads)
	bodies := make([]func(), h.threads)
	for t := 0; t < h.threads; t++ {
		t := t
		bodies[t] = func() {
			for k := 0; k < h.calls; k++ {
				ids[t] = append(ids[t], uu.RandomID())
			}
		}
	}
	// A controlled goroutine that blocks on something the scheduler does not intercept (a channel served by a goroutine the
	// package started itself, a timer) would block the exploration for ever: give every execution a generous wall-clock
	// limit and stop exploring schedules if it is exceeded (the free-running supplements have already run).
	done := make(chan *sched.Sched, 1)
	go func() { done <- sched.Run(ch, bodies...) }()
	var s *sched.Sched
	select {
	case s = <-done:
	case <-time.After(20 * time.Second):
		if abortRun != nil {
			abortRun("a controlled goroutine of harness %s did not reach its next scheduling point within 20s: package uu synchronises through something the scheduler does not intercept (seams bound: %s); schedule exploration cannot bind to this tree", h.name, uu.VerifBinding)
		}
		panic("blocked outside the scheduler")
	}
	res := execResult{schedule: s.Switches, points: s.Points}
	concurrent, lost := "", ""
	for _, src := range vrand.Sources {
		if src.Concurrent && concurrent == "" {
			concurrent = fmt.Sprintf("generator #%d (created with seed %d)", src.Index, src.SeedGiven)
		}
		if src.Counter != src.Draws && lost == "" {
			lost = fmt.Sprintf("generator #%d handed out %d values but its state advanced only %d times", src.Index, src.Draws, src.Counter)
		}
	}
	switch {
	case len(s.Panics) > 0:
		res.outcome, res.detail = "panic_in_thread", strings.Join(s.Panics, "; ")
	case s.Deadlock:
		res.outcome, res.detail = "deadlock", strings.Join(s.Blocked, "; ")
	case s.Livelock:
		res.outcome, res.detail = "livelock", "only threads that keep re-reading an unchanged atomic location were left, 64 times in a row"
	case concurrent != "":
		res.outcome, res.detail = "two_goroutines_inside_generator", concurrent+" was entered by a second goroutine while another one was inside it (a data race on the real generator)"
	case lost != "":
		res.outcome, res.detail = "lost_generator_update", lost
	}
	seen := map[uu.ID]string{}
	var obs []string
	for t := range ids {
		for k, id := range ids[t] {
			who := fmt.Sprintf("thread %d call %d", t, k)
			if res.outcome == "" && (id.Version() != 4 || id.Variant() != 1) {
				res.outcome, res.detail = "bad_version_or_variant", fmt.Sprintf("%s got %s (version %d variant %d)", who, id, id.Version(), id.Variant())
			}
			if prev, ok := seen[id]; ok && res.outcome == "" {
				res.outcome, res.detail = "duplicate_id", fmt.Sprintf("%s and %s both got %s", prev, who, id)
			}
			seen[id] = who
			obs = append(obs, id.String())
		}
		if len(ids[t]) != h.calls && res.outcome == "" {
			res.outcome, res.detail = "thread_did_not_finish", fmt.Sprintf("thread %d made %d of %d calls", t, len(ids[t]), h.calls)
		}
	}
	res.final = strings.Join(obs, ",")
	return res
}

type schedArg struct {
	Harness string `json:"harness"`
	Procs   int    `json:"gomaxprocs,omitempty"` // 0 = leave as is
	Trail   []int  `json:"choices"`              // index into the enabled list at every point with more than one enabled thread
}

func probeSchedule(a schedArg) (string, string) {
	h := harnesses[a.Harness]
	f1 := &fixedChooser{trail: a.Trail}
	r1 := execute(h, f1, a.Procs)
	f2 := &fixedChooser{trail: a.Trail}
	r2 := execute(h, f2, a.Procs)
	if f1.bad || f2.bad || r1.final != r2.final || r1.outcome != r2.outcome || fmt.Sprint(r1.schedule) != fmt.Sprint(r2.schedule) {
		return "replay_diverged", fmt.Sprintf("harness nondeterminism: replaying %v gave %q/%v then %q/%v", a.Trail, r1.outcome, r1.schedule, r2.outcome, r2.schedule)
	}
	if r1.outcome == "" {
		return "", ""
	}
	return r1.outcome, fmt.Sprintf("harness %s (threads x calls), schedule (thread ids in running order) %v: %s", a.Harness, r1.schedule, r1.detail)
}

// ------------------------------------------------------------ bit layout
type bitsArg struct {
	A uint64 `json:"draw_a"`
	B uint64 `json:"draw_b"`
}

// idFor: the ID generated when every generator answers a, b, a, b, ...
func idFor(a, b uint64) uu.ID {
	vals := []int64{int64(a), int64(b)}
	installScript(func(_ *vrand.Scripted, i int) int64 { return vals[i%2] })
	return uu.RandomID()
}

// Informational only (evidence): is the ID a plain bit copy of two 63-bit draws? The statement does not ask for that, so a
// tree that mixes its draws differently is judged on version, variant and "every other bit takes both values" alone.
func describeLayout() string {
	base := idFor(0, 0)
	fed := map[int]int{}
	multi := false
	for i := 0; i < 126; i++ {
		var a, b uint64
		if i < 63 {
			a = 1 << uint(i)
		} else {
			b = 1 << uint(i-63)
		}
		id := idFor(a, b)
		d := bits.OnesCount64(id.Lower^base.Lower) + bits.OnesCount64(id.Higher^base.Higher)
		if d > 1 {
			multi = true
		}
		if d > 0 {
			fed[i] = d
		}
	}
	return fmt.Sprintf("%d of the 126 bits of two 63-bit draws reach the ID; a draw bit feeding more than one ID bit: %v", len(fed), multi)
}

func probeBits(p bitsArg) (string, string) {
	id := idFor(p.A, p.B)
	if id.Version() != 4 || id.Variant() != 1 {
		return "bad_version_or_variant", fmt.Sprintf("draws %#x,%#x give %s (version %d, variant %d)", p.A, p.B, id, id.Version(), id.Variant())
	}
	return "", ""
}

// probeStuck: over the whole grid of draw pairs every one of the 122 non-fixed bits must take both values.
type stuckArg struct {
	Draws []uint64 `json:"draw_values"`
}

const fixedHi, fixedLo = uint64(0xf000), uint64(0xc000000000000000)

func probeStuck(p stuckArg) (string, string) {
	var or, and uu.ID
	and = uu.ID{Higher: ^uint64(0), Lower: ^uint64(0)}
	for _, a := range p.Draws {
		for _, b := range p.Draws {
			id := idFor(a, b)
			or.Higher |= id.Higher
			or.Lower |= id.Lower
			and.Higher &= id.Higher
			and.Lower &= id.Lower
		}
	}
	if or.Higher|fixedHi != ^uint64(0) || or.Lower|fixedLo != ^uint64(0) || and.Higher&^fixedHi != 0 || and.Lower&^fixedLo != 0 {
		return "stuck_bit", fmt.Sprintf("over all %d^2 pairs of scripted draws some of the 122 random bits never changed: never 1: %016x %016x, never 0: %016x %016x (higher, lower; version and variant fields masked out)",
			len(p.Draws), ^or.Higher&^fixedHi, ^or.Lower&^fixedLo, and.Higher&^fixedHi, and.Lower&^fixedLo)
	}
	return "", ""
}

type seedArg struct {
	Seed int64 `json:"seed"`
	N    int   `json:"draws"`
}

func probeSeed(a seedArg) (string, string) {
	vrand.Reset()
	vrand.Real, vrand.RealSeed = true, a.Seed
	defer func() { vrand.Real = false }()
	uu.VerifReset()
	seen := map[uu.ID]bool{}
	var or, and uu.ID
	and = uu.ID{Higher: ^uint64(0), Lower: ^uint64(0)}
	for i := 0; i < a.N; i++ {
		id := uu.RandomID()
		if id.Version() != 4 || id.Variant() != 1 {
			return "bad_version_or_variant", fmt.Sprintf("seed %d draw %d: %s", a.Seed, i, id)
		}
		if seen[id] {
			return "duplicate_id", fmt.Sprintf("seed %d: %s drawn twice within %d draws", a.Seed, id, a.N)
		}
		seen[id] = true
		or.Higher |= id.Higher
		or.Lower |= id.Lower
		and.Higher &= id.Higher
		and.Lower &= id.Lower
	}
	// every non-fixed bit took both values
	if or.Higher|fixedHi != ^uint64(0) || or.Lower|fixedLo != ^uint64(0) || and.Higher&^fixedHi != 0 || and.Lower&^fixedLo != 0 {
		return "stuck_bit", fmt.Sprintf("seed %d: over %d draws some of the 122 random bits never changed (or=%016x%016x and=%016x%016x)", a.Seed, a.N, or.Higher, or.Lower, and.Higher, and.Lower)
	}
	return "", ""
}

func main() {
	mc.Main("C19", "stateless model checking of uu.RandomID under a controlled cooperative scheduler: every interleaving of T goroutines x K calls with at most B preemptions (scheduling points: mutex lock/unlock, thread start/end, and a yield inside the scripted generator between its read and its write); bit layout over single-bit and complement draws; "+
		"non-trivial = schedule with at least one preemption", func(r *mc.Run) {
		abortRun = r.Abort
		r.Workers = 1 // the code under test has process-wide state (one generator, one mutex): executions run one at a time
		pS := mc.NewProbe(r, "schedule", nil, probeSchedule)
		pB := mc.NewProbe(r, "bits", nil, probeBits)
		pK := mc.NewProbe(r, "bits_both_values", nil, probeStuck)
		pR := mc.NewProbe(r, "real_generator", nil, probeSeed)
		r.Assume("hooks are injected with `go build -tags verif -overlay` only: uu's sync, sync/atomic, math/rand, math/rand/v2 and crypto/rand imports are redirected to the scheduler and generator shims and uu/verif_hooks.go (VerifReset) re-initialises every package-level variable per execution; nothing depends on unexported names; /repo is untouched")
		r.Extra["seams_bound_in_this_tree"] = uu.VerifBinding
		r.Extra["bit_layout"] = describeLayout()
		r.Assume("the scripted source models math/rand's generator as a non-atomic read-yield-write of its state and flags a second goroutine entering it; memory-model effects below that granularity are outside the scheduler (covered only by the free-running -race supplement in the thorough tier)")
		r.Assume("the statistical half of the statement (no duplicate from the real clock-seeded generator) is not decidable by this family; decided here: exclusive access to every generator, no lost generator update, no duplicate under distinct scripted draws, version and variant on every ID, every other bit takes both values over the scripted draw grid")

		type plan struct {
			h     string
			bound int // -1 unbounded
			procs int // GOMAXPROCS for the executions (0 = unchanged)
		}
		plans := []plan{{"2x1", -1, 0}, {"2x2", -1, 0}, {"3x1", -1, 0}, {"2x3", 3, 0}, {"3x2", 2, 0}, {"4x1", 2, 0}, {"2x2", -1, 1}, {"3x1", 2, 1}}
		if !r.Quick() {
			plans = []plan{{"2x1", -1, 0}, {"2x2", -1, 0}, {"3x1", -1, 0}, {"2x3", -1, 0}, {"3x2", 4, 0}, {"4x2", 3, 0}, {"3x3", 3, 0}, {"2x2", -1, 1}, {"3x1", -1, 1}, {"2x3", 3, 1}, {"2x2", -1, 2}, {"4x1", -1, 0}} // the largest unbounded exploration last
		}
		// The free-running supplements come first: they are short and bounded, and a tree whose schedule exploration uses up
		// the whole budget must still get them.
		type raceRun struct {
			g, n  string
			procs string
		}
		raceRuns := []raceRun{{"32", "30000", ""}, {"8", "20000", "1"}, {"600", "300", ""}, {"4", "d6500ms", ""}}
		if !r.Quick() {
			raceRuns = []raceRun{{"64", "100000", ""}, {"16", "100000", "1"}, {"4", "500000", "2"}, {"2000", "1000", ""}, {"600", "5000", "4"}, {"8", "d65s", ""}}
		}
		for _, rr := range raceRuns {
			rr := rr
			r.Phase(fmt.Sprintf("supplement (not deciding): free-running %s goroutines x %s draws (dN = a process living N long) under the Go race detector (real sync, real generator, first calls of a fresh process concurrent), GOMAXPROCS=%q", rr.g, rr.n, rr.procs), "one free run", func() {
				bin := os.Args[0] + ".race"
				limit := 90 * time.Second
				if !r.Quick() {
					limit = 8 * time.Minute
				}
				ctx, cancel := context.WithTimeout(context.Background(), limit)
				defer cancel()
				args := []string{"-g", rr.g, "-n", rr.n}
				if strings.HasPrefix(rr.n, "d") { // a long-lived process instead of a fixed number of draws
					args = []string{"-g", rr.g, "-d", rr.n[1:]}
				}
				cmd := exec.CommandContext(ctx, bin, args...)
				cmd.Env = os.Environ()
				if rr.procs != "" {
					cmd.Env = append(cmd.Env, "GOMAXPROCS="+rr.procs)
				}
				out, err := cmd.CombinedOutput()
				r.Extra["race_supplement_output_"+rr.g+"x"+rr.n+"_procs"+rr.procs] = strings.TrimSpace(lastLines(string(out), 3))
				if ctx.Err() != nil { // the supplement is not the deciding step: a run that does not finish in time is recorded, not judged
					r.Extra["race_supplement_timeout_"+rr.g+"x"+rr.n+"_procs"+rr.procs] = limit.String()
					err = nil
				}
				if err != nil {
					path := mc.Root + "/replays/C19/race_supplement_" + rr.g + "x" + rr.n + "_procs" + rr.procs + ".log"
					os.MkdirAll(mc.Root+"/replays/C19", 0o755)
					os.WriteFile(path, out, 0o644)
					if strings.Contains(string(out), "DATA RACE") || strings.Contains(string(out), "duplicates=") {
						r.Extra["race_supplement_failed"] = true
						r.ExternalViolation(path, "free-running race supplement failed:\n"+lastLines(string(out), 25))
					} else {
						r.Infra("race supplement could not run: %v: %s", err, lastLines(string(out), 5))
					}
				}
				r.Serial(func(w *mc.W) { w.Point(); w.Outcome("race supplement") })
			})
		}
		// ... and so do the bit phases (cheap, complete grids).
		// bits
		var draws []uint64
		draws = append(draws, 0, 1<<63-1)
		for i := 0; i < 63; i++ {
			draws = append(draws, 1<<uint(i), (1<<63-1)&^(1<<uint(i)))
		}
		r.Phase(fmt.Sprintf("bit layout: all %d^2 pairs of draws from {0, 2^63-1, e_i, not e_i}", len(draws)), "complete", func() {
			r.Serial(func(w *mc.W) {
				for _, a := range draws {
					for _, b := range draws {
						w.Point()
						w.NonTrivial()
						pB.Do(w, bitsArg{a, b})
					}
				}
				w.Point()
				w.NonTrivial()
				pK.Do(w, stuckArg{draws})
				w.Outcome("bit layout")
			})
		})
		r.Sample("bits", bitsArg{1 << 14, 1})
		r.Sample("bits_both_values", stuckArg{[]uint64{0, 1<<63 - 1}})
		seeds, n := 16, 2048
		if !r.Quick() {
			seeds, n = 64, 4096
		}
		r.Phase(fmt.Sprintf("supplement (not deciding): real math/rand generator, seeds 0..%d x %d sequential draws: version/variant, no duplicate, every random bit takes both values", seeds-1, n), "stated seeds", func() {
			r.Serial(func(w *mc.W) {
				for s := 0; s < seeds; s++ {
					w.Point()
					pR.Do(w, seedArg{int64(s), n})
				}
				w.Outcome("real generator")
			})
		})
		sched_stats := []map[string]any{}
		// Iterative context bounding across the whole plan: every harness at bound 0, then every harness at bound 1, at bound
		// 2, ..., and only then the unbounded explorations - so that a tree whose executions are long (many scheduling
		// points) still gets all small-bound explorations of the larger harnesses before the budget is used up.
		type step struct {
			pl plan
			b  int
		}
		var steps []step
		for _, pl := range plans {
			bounds := []int{0, 1, 2}
			if pl.bound > 2 {
				for b := 3; b <= pl.bound; b++ {
					bounds = append(bounds, b)
				}
			}
			if pl.bound < 0 {
				bounds = []int{0, 1, 2, -1}
			} else if pl.bound < 2 {
				bounds = bounds[:pl.bound+1]
			}
			for _, b := range bounds {
				steps = append(steps, step{pl, b})
			}
		}
		rank := func(b int) int {
			if b < 0 {
				return 1 << 20
			}
			return b
		}
		sort.SliceStable(steps, func(i, j int) bool { return rank(steps[i].b) < rank(steps[j].b) })
		for _, st := range steps {
			pl, b := st.pl, st.b
			h := harnesses[pl.h]
			{
				bname := fmt.Sprintf("preemption bound %d", b)
				if b < 0 {
					bname = "unbounded (all interleavings)"
				}
				pname := ""
				if pl.procs > 0 {
					pname = fmt.Sprintf(", GOMAXPROCS=%d", pl.procs)
				}
				r.Phase(fmt.Sprintf("schedules: %d goroutines x %d calls, %s%s", h.threads, h.calls, bname, pname), bname, func() {
					finals := map[string]bool{}
					var maxPoints int
					st := r.Explore(b, 0, func(w *mc.W, c *mc.Ctx) {
						res := execute(h, ctxChooser{c}, pl.procs)
						w.Point()
						w.Calls(int64(res.points))
						if c.Devs() > 0 {
							w.NonTrivial()
						}
						finals[res.final] = true
						if res.points > maxPoints {
							maxPoints = res.points
						}
						if res.outcome != "" {
							pS.Do(w, schedArg{Harness: h.name, Procs: pl.procs, Trail: c.Trail()})
							w.Outcome("violating schedule")
						} else {
							w.Outcome("clean schedule")
						}
					})
					r.Serial(func(w *mc.W) { w.Outcome(fmt.Sprintf("harness %s", h.name)) })
					sched_stats = append(sched_stats, map[string]any{"harness": h.name, "gomaxprocs": pl.procs, "preemption_bound": b, "schedules": st.Executions, "max_choice_depth": st.MaxDepth, "max_scheduling_points": maxPoints, "distinct_final_outcomes": len(finals)})
				})
			}
		}
		r.Extra["schedule_exploration"] = sched_stats
		r.Sample("schedule", schedArg{Harness: "2x2", Trail: []int{1, 0, 1}})

	})
}

func lastLines(s string, n int) string {
	l := strings.Split(strings.TrimRight(s, "\n"), "\n")
	if len(l) > n {
		l = l[len(l)-n:]
	}
	return strings.Join(l, "\n")
}
