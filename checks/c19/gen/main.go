// gen prepares the -overlay for the C19 harness from /repo's working tree:
//   - every non-test file of package uu is copied with its "sync" / "sync/atomic" imports redirected to the scheduler shims;
//   - a function that re-initialises every package-level variable of the file is appended to each copy, so that state added by a
//     change (buffers, counters, caches) does not leak from one explored execution into the next;
//   - "math/rand", "math/rand/v2" and "crypto/rand" imports are redirected to scripted generators the harness controls;
//   - uu/verif_hooks.go (VerifReset) calls those functions. Nothing depends on the names of unexported identifiers.
//
// usage: gen <work dir> <overlay json path>
package main

import (
	"bytes"
	"encoding/json"
	"fmt"
	"go/ast"
	"go/parser"
	"go/printer"
	"go/token"
	"os"
	"path/filepath"
	"sort"
	"strconv"
	"strings"
)

// The tree under test and the verification sources; the defaults are what every registered command uses. The environment
// variables exist for tools/pc_eval.sh only, which evaluates a changed scratch copy of the repository without touching /repo.
var (
	repoRoot = envOr("VERIF_REPO", "/repo")
	repoPkg  = repoRoot + "/uu"
	overlayV = envOr("VERIF_SRC", "/verif") + "/overlay"
)

func envOr(k, d string) string {
	if v := os.Getenv(k); v != "" {
		return v
	}
	return d
}

const (
	shimSync = "go.lstv.dev/util/verifsync"
	shimAtom = "go.lstv.dev/util/verifsync/atomic"
	shimRand = "go.lstv.dev/util/verifsync/rand"
	shimRnd2 = "go.lstv.dev/util/verifsync/rand2"
	shimCrnd = "go.lstv.dev/util/verifsync/crand"
)

func die(format string, a ...any) {
	fmt.Fprintf(os.Stderr, "harness cannot bind: "+format+"\n", a...)
	os.Exit(3)
}

func main() {
	work, out := os.Args[1], os.Args[2]
	if err := os.MkdirAll(filepath.Join(work, "uu"), 0o755); err != nil {
		die("%v", err)
	}
	files, _ := filepath.Glob(repoPkg + "/*.go")
	sort.Strings(files)
	replace := map[string]string{}
	var resetFuncs []string
	bound := map[string]bool{} // which seams of the package under test the harness controls
	for i, f := range files {
		if strings.HasSuffix(f, "_test.go") {
			continue
		}
		fset := token.NewFileSet()
		af, err := parser.ParseFile(fset, f, nil, parser.ParseComments)
		if err != nil {
			die("%s does not parse: %v", f, err)
		}
		for _, im := range af.Imports {
			p, _ := strconv.Unquote(im.Path.Value)
			switch p {
			case "math/rand", "math/rand/v2", "crypto/rand":
				bound[p] = true
				im.Path.Value = strconv.Quote(map[string]string{"math/rand": shimRand, "math/rand/v2": shimRnd2, "crypto/rand": shimCrnd}[p])
				if im.Name == nil {
					im.Name = ast.NewIdent("rand")
				}
			case "sync":
				bound[p] = true
				im.Path.Value = strconv.Quote(shimSync)
				if im.Name == nil {
					im.Name = ast.NewIdent("sync")
				}
			case "sync/atomic":
				bound[p] = true
				im.Path.Value = strconv.Quote(shimAtom)
				if im.Name == nil {
					im.Name = ast.NewIdent("atomic")
				}
			}
		}
		var stmts []string
		for _, d := range af.Decls {
			gd, ok := d.(*ast.GenDecl)
			if !ok || gd.Tok != token.VAR {
				continue
			}
			for _, sp := range gd.Specs {
				vs := sp.(*ast.ValueSpec)
				var names []string
				for _, n := range vs.Names {
					names = append(names, n.Name)
				}
				switch {
				case len(vs.Values) == len(vs.Names):
					for k, n := range names {
						if n != "_" {
							stmts = append(stmts, fmt.Sprintf("\t%s = %s", n, src(fset, vs.Values[k])))
						}
					}
				case len(vs.Values) == 1: // a, b = f()
					stmts = append(stmts, fmt.Sprintf("\t%s = %s", strings.Join(names, ", "), src(fset, vs.Values[0])))
				case len(vs.Values) == 0 && vs.Type != nil:
					for _, n := range names {
						if n != "_" {
							stmts = append(stmts, fmt.Sprintf("\t%s = *new(%s)", n, src(fset, vs.Type)))
						}
					}
				}
			}
		}
		var buf bytes.Buffer
		if err := printer.Fprint(&buf, fset, af); err != nil {
			die("cannot print %s: %v", f, err)
		}
		if len(stmts) > 0 {
			fn := fmt.Sprintf("verifReset%d", i)
			resetFuncs = append(resetFuncs, fn)
			fmt.Fprintf(&buf, "\n// %s re-initialises the package-level variables of this file (generated for the verification harness).\nfunc %s() {\n%s\n}\n", fn, fn, strings.Join(stmts, "\n"))
		}
		dst := filepath.Join(work, "uu", filepath.Base(f))
		if err := os.WriteFile(dst, buf.Bytes(), 0o644); err != nil {
			die("%v", err)
		}
		replace[f] = dst
	}
	// No seam is required: a tree without synchronisation operations has a single schedule class under this scheduler (its
	// unsynchronised accesses are the business of the free-running race pass), and a tree that draws its randomness from
	// somewhere else is still judged on the IDs it returns. What was bound is reported in the evidence.
	var seams []string
	for p := range bound {
		seams = append(seams, p)
	}
	sort.Strings(seams)
	hooks := "//go:build verif\n\npackage uu\n\n// VerifBinding lists the imports of this package that were redirected to the harness shims.\nconst VerifBinding = " + strconv.Quote(strings.Join(seams, ",")) + "\n\n// VerifReset re-initialises all package-level state of uu (harness seam, injected through -overlay only).\nfunc VerifReset() {\n"
	for _, fn := range resetFuncs {
		hooks += "\t" + fn + "()\n"
	}
	hooks += "}\n"
	hp := filepath.Join(work, "uu", "verif_hooks.go")
	if err := os.WriteFile(hp, []byte(hooks), 0o644); err != nil {
		die("%v", err)
	}
	replace[repoPkg+"/verif_hooks.go"] = hp
	replace[repoRoot+"/verifsync/sched.go"] = overlayV + "/verifsync/sched.go"
	replace[repoRoot+"/verifsync/extra.go"] = overlayV + "/verifsync/extra.go"
	replace[repoRoot+"/verifsync/atomic/atomic.go"] = overlayV + "/verifsync/atomic/atomic.go"
	replace[repoRoot+"/verifsync/rand/rand.go"] = overlayV + "/verifsync/rand/rand.go"
	replace[repoRoot+"/verifsync/rand2/rand.go"] = overlayV + "/verifsync/rand2/rand.go"
	replace[repoRoot+"/verifsync/crand/rand.go"] = overlayV + "/verifsync/crand/rand.go"
	b, _ := json.MarshalIndent(map[string]any{"Replace": replace}, "", " ")
	if err := os.WriteFile(out, b, 0o644); err != nil {
		die("%v", err)
	}
}

func src(fset *token.FileSet, n ast.Node) string {
	var b bytes.Buffer
	printer.Fprint(&b, fset, n)
	return b.String()
}
