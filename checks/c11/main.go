// C11: date binary encoding is stable, strict and lossless.
package main

import (
	"bytes"
	"errors"
	"fmt"
	"time"
	_ "time/tzdata"

	"go.lstv.dev/util/date"
	"verif/firstuse"
	"verif/mc"
	"verif/oracle"
)

type encArg struct {
	Y    int64  `json:"y"`
	M    int    `json:"m"`
	D    int    `json:"d"`
	Zone string `json:"time_local,omitempty"` // the process's local zone during the call ("" = unchanged)
}

var defaultLocal = time.Local

func setupEnc(a encArg) {
	time.Local = defaultLocal
	if loc, err := time.LoadLocation(a.Zone); err == nil && a.Zone != "" {
		time.Local = loc
	}
}

type decArg struct {
	Data mc.Bin `json:"data"`
}

func refEncode(y int64, m, d int) []byte {
	u := uint32(int32(y)) // two's complement, big endian
	return []byte{1, byte(u >> 24), byte(u >> 16), byte(u >> 8), byte(u), byte(m), byte(d)}
}

func probeEnc(a encArg) (string, string) {
	d := date.New(int(a.Y), date.Month(a.M), a.D)
	if y, m, dd := d.Date(); int64(y) != a.Y || int(m) != a.M || dd != a.D {
		return "new_components", fmt.Sprintf("date.New(%d,%d,%d).Date() = %d,%d,%d", a.Y, a.M, a.D, y, m, dd)
	}
	b, err := d.MarshalBinary()
	want := refEncode(a.Y, a.M, a.D)
	if err != nil || !bytes.Equal(b, want) {
		return "layout", fmt.Sprintf("MarshalBinary(%d-%d-%d) = %x, %v; want %x", a.Y, a.M, a.D, b, err, want)
	}
	// the caller may scribble over the returned bytes: a later MarshalBinary must not be affected
	keep := append([]byte(nil), b...)
	for i := range b {
		b[i] = 0xFF
	}
	b2, err := d.MarshalBinary()
	bad := err != nil || !bytes.Equal(b2, want)
	got := fmt.Sprintf("%x", b2)
	copy(b, keep) // put the bytes back: in a broken tree they may be memory the library still owns, and replays must see the same state
	if bad {
		return "layout_after_caller_wrote_into_earlier_result", fmt.Sprintf("MarshalBinary(%d-%d-%d) = %s after the caller overwrote the bytes returned by an earlier call; want %x", a.Y, a.M, a.D, got, want)
	}
	for _, pre := range []date.Date{{}, date.New(1999, 12, 31)} {
		u := pre
		if err := u.UnmarshalBinary(append([]byte(nil), b...)); err != nil {
			if a.Y > 999999999 || a.Y < -999999999 { // the statement promises the round trip within +-999,999,999 years only
				continue // (what an error may leave in the receiver is judged by the decode probe)
			}
			return "roundtrip_rejected", fmt.Sprintf("UnmarshalBinary(%x) failed: %v", b, err)
		}
		if u != d || !u.Equal(d) {
			return "roundtrip_value", fmt.Sprintf("UnmarshalBinary(%x) = %v want %v", b, u, d)
		}
	}
	return "", ""
}

const (
	expOK = iota
	expBadLen
	expBadVersion
	expBadLenOrVersion
	expNotADate
	expDontCareYear // real date but |year| beyond +-999,999,999: success (with the exact triple) or error
)

var expNames = [...]string{"decodes", "invalid_length", "unsupported_version", "invalid_length_or_version", "not_a_calendar_date", "real_date_year_beyond_range"}

func expectDec(data []byte) (int, int64, int, int) {
	l := len(data)
	if l == 0 {
		return expBadLen, 0, 0, 0
	}
	if data[0] != 1 {
		if l != 7 {
			return expBadLenOrVersion, 0, 0, 0
		}
		return expBadVersion, 0, 0, 0
	}
	if l != 7 {
		return expBadLen, 0, 0, 0
	}
	y := int64(int32(uint32(data[1])<<24 | uint32(data[2])<<16 | uint32(data[3])<<8 | uint32(data[4])))
	m, d := int(data[5]), int(data[6])
	if !oracle.RealDate(y, m, d) {
		return expNotADate, y, m, d
	}
	if y > 999999999 || y < -999999999 {
		return expDontCareYear, y, m, d
	}
	return expOK, y, m, d
}

func probeDec(a decArg) (string, string) {
	data := []byte(a.Data)
	cls, y, m, d := expectDec(data)
	for _, pre := range []date.Date{{}, date.New(1999, 12, 31), date.New(2020, 2, 29), date.New(2023, 1, 31)} {
		u := pre
		in := append([]byte(nil), data...)
		err := u.UnmarshalBinary(in)
		if err != nil {
			if gy, gm, gd := u.Date(); u != pre && !oracle.RealDate(int64(gy), int(gm), gd) { // an untouched or still real receiver is C17's business
				return "impossible_date_left_in_receiver", fmt.Sprintf("UnmarshalBinary(%x) failed (%v) but left the receiver as %d-%d-%d, which is not a calendar date", data, err, gy, gm, gd)
			}
			switch cls {
			case expOK:
				return "valid_rejected", fmt.Sprintf("UnmarshalBinary(%x) [%d-%d-%d] failed: %v", data, y, m, d, err)
			case expBadLen:
				if !errors.Is(err, date.ErrInvalidLength) {
					return "wrong_error_for_length", fmt.Sprintf("UnmarshalBinary(%x): %v is not ErrInvalidLength", data, err)
				}
			case expBadVersion:
				if !errors.Is(err, date.ErrUnsupportedVersion) {
					return "wrong_error_for_version", fmt.Sprintf("UnmarshalBinary(%x): %v is not ErrUnsupportedVersion", data, err)
				}
			case expBadLenOrVersion:
				if !errors.Is(err, date.ErrInvalidLength) && !errors.Is(err, date.ErrUnsupportedVersion) {
					return "wrong_error_for_length_and_version", fmt.Sprintf("UnmarshalBinary(%x): %v", data, err)
				}
			}
			continue
		}
		// success
		switch cls {
		case expBadLen, expBadVersion, expBadLenOrVersion:
			return "bad_length_or_version_accepted", fmt.Sprintf("UnmarshalBinary(%x) succeeded (%s expected), value %v", data, expNames[cls], u)
		case expNotADate:
			gy, gm, gd := u.Date()
			return "impossible_date_decoded", fmt.Sprintf("UnmarshalBinary(%x) succeeded for year %d month %d day %d; receiver now prints %q, Date() = %d,%d,%d, Time() = %s",
				data, y, m, d, u.String(), gy, gm, gd, u.Time().Format("2006-01-02"))
		}
		gy, gm, gd := u.Date()
		if int64(gy) != y || int(gm) != m || gd != d {
			return "decoded_components", fmt.Sprintf("UnmarshalBinary(%x) = %d,%d,%d want %d,%d,%d", data, gy, gm, gd, y, m, d)
		}
		if !oracle.RealDate(int64(gy), int(gm), gd) {
			return "impossible_date_decoded", fmt.Sprintf("UnmarshalBinary(%x) yields %d-%d-%d", data, gy, gm, gd)
		}
	}
	return "", ""
}

// history of depth 2: two decodes from one reused buffer; the second must not be influenced by the first
type reuseArg struct {
	A mc.Bin `json:"first"`
	B mc.Bin `json:"second"`
}

func probeReuse(a reuseArg) (string, string) {
	buf := make([]byte, 0, 32)
	buf = append(buf, a.A...)
	var d1 date.Date
	_ = d1.UnmarshalBinary(buf)
	buf = append(buf[:0], a.B...) // the same backing array, overwritten in place
	var d2 date.Date
	err := d2.UnmarshalBinary(buf)
	cls, y, m, d := expectDec([]byte(a.B))
	switch cls {
	case expOK:
		gy, gm, gd := d2.Date()
		if err != nil || int64(gy) != y || int(gm) != m || gd != d {
			return "after_previous_call:decode", fmt.Sprintf("after decoding %x from the same buffer, %x decodes to %d-%d-%d, %v; want %d-%d-%d", []byte(a.A), []byte(a.B), gy, gm, gd, err, y, m, d)
		}
	case expDontCareYear:
	default:
		if err == nil {
			return "after_previous_call:invalid_accepted", fmt.Sprintf("after decoding %x from the same buffer, %x (%s) is accepted as %v", []byte(a.A), []byte(a.B), expNames[cls], d2)
		}
	}
	// the first value must not change when the buffer is reused
	var d1b date.Date
	_ = d1b.UnmarshalBinary([]byte(a.A))
	if d1 != d1b {
		return "after_previous_call:earlier_value_changed", fmt.Sprintf("the value decoded from %x changed to %v after the buffer was reused", []byte(a.A), d1)
	}
	return "", ""
}

// dense histories: one valid date decoded first, then all 65,536 (month, day) byte pairs of a year, each judged
type denseArg struct {
	FY int64 `json:"first_year"`
	FM int   `json:"first_month"`
	FD int   `json:"first_day"`
	SY int64 `json:"second_year"`
}

func probeDense(a denseArg) (string, string) {
	first := refEncode(a.FY, a.FM, a.FD)
	buf := refEncode(a.SY, 0, 0)
	for mb := 0; mb < 256; mb++ {
		for db := 0; db < 256; db++ {
			var d1, d2 date.Date
			_ = d1.UnmarshalBinary(first)
			buf[5], buf[6] = byte(mb), byte(db)
			err := d2.UnmarshalBinary(buf)
			real := oracle.RealDate(a.SY, mb, db)
			if real != (err == nil) {
				return "after_previous_call:decode", fmt.Sprintf("after decoding %04d-%02d-%02d, the bytes %x (month byte %d, day byte %d) give %v, %v; real date = %v", a.FY, a.FM, a.FD, buf, mb, db, d2, err, real)
			}
			if err == nil {
				if y, m, d := d2.Date(); int64(y) != a.SY || int(m) != mb || d != db {
					return "after_previous_call:decode", fmt.Sprintf("after decoding %04d-%02d-%02d, the bytes %x decode to %d-%d-%d", a.FY, a.FM, a.FD, buf, y, m, d)
				}
			}
		}
	}
	return "", ""
}

func main() {
	mc.Main("C11", "encode side: every real date of the stated year sets; decode side: complete grids of byte strings (all month/day byte pairs, all version bytes, all lengths 0..16, year-byte cross product); "+
		"non-trivial = a 7-byte version-1 string (whether or not it names a real date)", func(r *mc.Run) {
		firstuse.Phase(r, map[string][]string{"date": {"binary"}})
		enc := mc.NewProbe(r, "encode_roundtrip", setupEnc, probeEnc)
		r.Reset = func() { time.Local = defaultLocal }
		dec := mc.NewProbe(r, "decode", nil, probeDec)
		r.Assume("reference encoder: version byte 1, two's-complement big-endian int32 year, month, day (one-based), written independently")
		r.Assume("a decoded 7-byte version-1 string must name a real Gregorian date; for |year| > 999,999,999 success (with the exact triple) or an error are both accepted")
		r.Assume("after a failed decode the receiver must not hold an impossible date (whether it is otherwise untouched is C17's business)")

		pr := mc.NewProbe(r, "buffer_reuse", nil, probeReuse)
		pd := mc.NewProbe(r, "dense_history", nil, probeDense)
		r.Phase("serial: all histories of two decodes from one reused buffer over 14 byte strings", "complete for depth 2 over the listed inputs", func() {
			var ins [][]byte
			for _, t := range [][3]int64{{2024, 2, 29}, {2023, 2, 28}, {1, 1, 1}, {-44, 3, 15}, {9999, 12, 31}} {
				ins = append(ins, refEncode(t[0], int(t[1]), int(t[2])))
			}
			ins = append(ins, refEncode(2023, 2, 29), refEncode(2024, 13, 1), refEncode(2024, 0, 0), []byte{2, 0, 0, 7, 232, 2, 29}, []byte{1, 0, 0, 7, 232, 2}, []byte{}, []byte{1}, append(refEncode(2024, 2, 29), 0), refEncode(2024, 2, 30))
			r.Serial(func(w *mc.W) {
				for _, a := range ins {
					for _, b := range ins {
						w.Point()
						pr.Do(w, reuseArg{mc.Bin(a), mc.Bin(b)})
					}
				}
			})
		})
		one := func(w *mc.W, data []byte) {
			cls, _, _, _ := expectDec(data)
			w.Point()
			w.Outcome(expNames[cls])
			if len(data) == 7 && data[0] == 1 {
				w.NonTrivial()
			}
			dec.Do(w, decArg{Data: mc.Bin(data)})
		}
		r.Phase("serial: every valid date of 2022 and 2023 (quick: of January-March and December) decoded first, then each of the 65,536 (month byte, day byte) pairs of year 2022 decoded (the second decode is judged)", "complete for depth 2 over the two years x the byte grid", func() {
			r.Serial(func(w *mc.W) {
				for _, fy := range []int64{2022, 2023} {
					for m := 1; m <= 12; m++ {
						if r.Quick() && m > 3 && m != 12 { // quick: January-March and December as first decode; thorough: every day
							continue
						}
						for d := 1; d <= oracle.DaysIn(fy, m); d++ {
							w.Points(65536)
							pd.Do(w, denseArg{fy, m, d, 2022})
						}
					}
				}
			})
		})
		r.Phase("decode: lengths 17..700 and 65536+7, 1<<20 with a valid 7-byte prefix", "complete grid", func() {
			r.Serial(func(w *mc.W) {
				for l := 17; l <= 700; l++ {
					buf := make([]byte, l)
					copy(buf, refEncode(2022, 8, 7))
					one(w, buf)
				}
				for _, l := range []int{65536 + 7, 65536, 1 << 20, 1<<20 + 7, 1<<24 + 7} {
					buf := make([]byte, l)
					copy(buf, refEncode(2022, 8, 7))
					one(w, buf)
				}
			})
		})
		perYear := func(w *mc.W, y int64) {
			for m := 1; m <= 12; m++ {
				for d := 1; d <= oracle.DaysIn(y, m); d++ {
					w.Point()
					w.NonTrivial()
					enc.Do(w, encArg{Y: y, M: m, D: d})
				}
			}
			w.Outcome("encode_roundtrip")
		}
		r.Phase("encode+decode every date of years -400..9999", "complete", func() {
			r.Parallel(10400, 8, func(w *mc.W, i int64) { perYear(w, i-400) })
		})
		for _, z := range mc.Zones {
			z := z
			r.Phase(fmt.Sprintf("time.Local = %s: encode+decode every day of 1880-2040", z), "complete for the listed years", func() {
				setupEnc(encArg{Zone: z})
				r.Parallel(161, 1, func(w *mc.W, i int64) {
					y := 1880 + i
					for m := 1; m <= 12; m++ {
						for d := 1; d <= oracle.DaysIn(y, m); d++ {
							w.Point()
							enc.Do(w, encArg{Y: y, M: m, D: d, Zone: z})
						}
					}
				})
				time.Local = defaultLocal
			})
		}
		var years []int64
		p10 := int64(1)
		for k := 0; k <= 8; k++ {
			p10 *= 10
			years = append(years, p10, -p10, p10-1, -(p10 - 1), p10+4, -(p10 + 4))
		}
		years = append(years, 999999999, -999999999, 999999996, -999999996, 1<<15, 1<<16, 1<<24, -(1 << 24), (1<<15)-1, (1<<16)-1, (1<<24)-1, 255, 256, 257, 65535, 65537, -1, -4, -100, -256, -257, -65536,
			0x01020304, 0x7f000000, 0x00ff00ff, 0x3b9ac9ff)
		r.Phase(fmt.Sprintf("encode+decode every day of %d boundary years out to +-999,999,999", len(years)), "stated year set, all days", func() {
			r.Parallel(int64(len(years)), 1, func(w *mc.W, i int64) { perYear(w, years[i]) })
		})
		r.Sample("encode", encArg{Y: -999999999, M: 2, D: 28})

		gridYears := []int64{2022, 2024, 1900, 2000, 0, 1, -1, 9999, 999999999, -999999999, 10000, 4, -4, -96, -100, -196, -200, -400, -1900, -2000, 2100, 999999996, -999999996, 2147483647, -2147483648}
		r.Phase(fmt.Sprintf("decode: %d years x all 65,536 (month byte, day byte) pairs", len(gridYears)), "complete grid", func() {
			r.Parallel(int64(len(gridYears))*256, 4, func(w *mc.W, i int64) {
				y := gridYears[i/256]
				mb := int(i % 256)
				buf := refEncode(y, mb, 0)
				for db := 0; db < 256; db++ {
					buf[6] = byte(db)
					one(w, buf)
				}
			})
		})
		r.Sample("decode", decArg{Data: mc.Bin(refEncode(2022, 13, 32))})
		r.Phase("decode: all 256 version bytes x lengths 0..16 x 3 payloads", "complete grid", func() {
			r.Parallel(256, 1, func(w *mc.W, v int64) {
				for _, pay := range [][]byte{refEncode(2022, 8, 7), refEncode(2022, 2, 30), bytes.Repeat([]byte{0xff}, 7)} {
					for l := 0; l <= 16; l++ {
						buf := make([]byte, l)
						for i := range buf {
							if i < 7 {
								buf[i] = pay[i]
							} else {
								buf[i] = byte(i)
							}
						}
						if l > 0 {
							buf[0] = byte(v)
						}
						one(w, buf)
					}
				}
			})
		})
		yb := []byte{0x00, 0x01, 0x7f, 0x80, 0xff, 0x07}
		md := []byte{0, 1, 2, 3, 4, 11, 12, 13, 28, 29, 30, 31, 32, 255}
		r.Phase("decode: year bytes {00,01,07,7f,80,ff}^4 x month/day bytes {0,1,2,3,4,11,12,13,28..32,255}^2", "complete cross product", func() {
			n := int64(len(yb) * len(yb) * len(yb) * len(yb))
			r.Parallel(n, 8, func(w *mc.W, i int64) {
				buf := []byte{1, yb[i%6], yb[i/6%6], yb[i/36%6], yb[i/216%6], 0, 0}
				for _, m := range md {
					for _, d := range md {
						buf[5], buf[6] = m, d
						one(w, buf)
					}
				}
			})
		})
	})
}
