package mc

import (
	"encoding/hex"
	"encoding/json"
	"strconv"
)

// Bin is a byte string with a binary-safe JSON form: {"q": Go-quoted ASCII, "hex": exact bytes}.
type Bin string

func (b Bin) MarshalJSON() ([]byte, error) {
	return json.Marshal(map[string]string{"q": strconv.QuoteToASCII(string(b)), "hex": hex.EncodeToString([]byte(b))})
}

func (b *Bin) UnmarshalJSON(data []byte) error {
	var m map[string]string
	if err := json.Unmarshal(data, &m); err != nil {
		return err
	}
	x, err := hex.DecodeString(m["hex"])
	if err != nil {
		return err
	}
	*b = Bin(x)
	return nil
}

// Mutations1 calls fn with every 1-deviation mutant of base: each position
// substituted by each of the byte values in vals, each value inserted at
// each gap, each position deleted (base itself is not produced). buf is reused.
func Mutations1(base []byte, vals []byte, fn func(m []byte)) {
	n := len(base)
	buf := make([]byte, 0, n+1)
	for i := 0; i < n; i++ {
		for _, v := range vals {
			if v == base[i] {
				continue
			}
			buf = append(buf[:0], base...)
			buf[i] = v
			fn(buf)
		}
	}
	for i := 0; i <= n; i++ {
		for _, v := range vals {
			buf = append(buf[:0], base[:i]...)
			buf = append(buf, v)
			buf = append(buf, base[i:]...)
			fn(buf)
		}
	}
	for i := 0; i < n; i++ {
		buf = append(buf[:0], base[:i]...)
		buf = append(buf, base[i+1:]...)
		fn(buf)
	}
}

// Lookalikes are multi-byte runes that case folding, Unicode digit / letter classes or "visually the same" normalisation
// map onto the ASCII characters the grammars of this library are made of (long s, Kelvin sign, dotless and dotted i,
// full-width digits, letters and punctuation, Arabic-Indic and mathematical digits, roman numeral code points, minus and
// hyphen variants, no-break spaces). A 1-deviation mutant with one of them is one *character* away from a valid text.
var Lookalikes = []string{"\u017f", "\u212a", "\u0131", "\u0130", "\uff11", "\uff10", "\uff21", "\uff41", "\uff2d", "\uff36", "\uff56", "\uff0e", "\uff0b", "\uff0d", "\u0661", "\u0660", "\U0001d7cf",
	"\u2160", "\u2164", "\u2169", "\u2170", "\u216f", "\u2212", "\u2010", "\u2011", "\u00a0", "\u2007", "\u202f", "\u00e9", "\u00df", "\u01c5", "\u1e9e", "\u00b9", "\u00bd", "\ufeff", "\u0085", "\u2028"}

// MutationsTok: every substitution of one byte of base by a token and every insertion of a token (tokens may be multi-byte).
func MutationsTok(base []byte, toks []string, fn func(m []byte)) {
	n := len(base)
	buf := make([]byte, 0, n+8)
	for i := 0; i < n; i++ {
		for _, t := range toks {
			buf = append(buf[:0], base[:i]...)
			buf = append(buf, t...)
			buf = append(buf, base[i+1:]...)
			fn(buf)
		}
	}
	for i := 0; i <= n; i++ {
		for _, t := range toks {
			buf = append(buf[:0], base[:i]...)
			buf = append(buf, t...)
			buf = append(buf, base[i:]...)
			fn(buf)
		}
	}
	// a token in place of as many bytes as it is long (the text keeps its length: a parser that checks the length first and
	// then walks runes or truncates them to bytes is still reached)
	for i := 0; i < n; i++ {
		for _, t := range toks {
			if len(t) < 2 || i+len(t) > n {
				continue
			}
			buf = append(buf[:0], base[:i]...)
			buf = append(buf, t...)
			buf = append(buf, base[i+len(t):]...)
			fn(buf)
		}
	}
}

// AllBytes is 0..255.
var AllBytes = func() []byte {
	b := make([]byte, 256)
	for i := range b {
		b[i] = byte(i)
	}
	return b
}()

// Scribble overwrites the given slices (results a caller received earlier) and returns a function that puts the original
// bytes back: in a broken tree such a slice may be memory the library still owns, and replays must see the same state.
func Scribble(slices ...[]byte) (restore func()) {
	saved := make([][]byte, len(slices))
	for i, sl := range slices {
		saved[i] = append([]byte(nil), sl...)
		for k := range sl {
			sl[k] = '#'
		}
	}
	return func() {
		for i, sl := range slices {
			copy(sl, saved[i])
		}
	}
}

// Zones whose local calendar has days without a local midnight or skipped days (plus ordinary ones): the process's local
// zone is a configuration the library could observe through package time.
var Zones = []string{"Pacific/Apia", "America/Sao_Paulo", "Pacific/Kiritimati", "Pacific/Kwajalein", "Europe/Prague", "America/New_York"}
