package mc

import (
	"fmt"
	"sync"
	"sync/atomic"
)

// Parallel distributes the indices 0..n-1 over the workers in chunks. It
// stops early (leaving the phase non-exhaustive) when the deadline passes.
func (r *Run) Parallel(n int64, chunk int64, fn func(w *W, i int64)) {
	if chunk <= 0 {
		chunk = 1
	}
	var next atomic.Int64
	var wg sync.WaitGroup
	nw := r.Workers
	if int64(nw) > (n+chunk-1)/chunk {
		nw = int((n + chunk - 1) / chunk)
	}
	if nw < 1 {
		nw = 1
	}
	for k := 0; k < nw; k++ {
		wg.Add(1)
		go func() {
			defer wg.Done()
			w := r.newW()
			defer w.flush()
			for {
				if r.expired.Load() {
					return
				}
				lo := next.Add(chunk) - chunk
				if lo >= n {
					return
				}
				hi := lo + chunk
				if hi > n {
					hi = n
				}
				for i := lo; i < hi; i++ {
					fn(w, i)
				}
				w.flush()
			}
		}()
	}
	wg.Wait()
}

// Strings enumerates every string over alphabet with minLen <= len <= maxLen
// (shortest first), sharded over the workers by the first symbols. buf is
// reused: fn must not retain it.
func (r *Run) Strings(alphabet []byte, minLen, maxLen int, fn func(w *W, s []byte)) {
	k := len(alphabet)
	for L := minLen; L <= maxLen; L++ {
		if r.expired.Load() {
			return
		}
		if L == 0 {
			w := r.newW()
			fn(w, []byte{})
			w.flush()
			continue
		}
		// shard on the first min(L,3) symbols
		sh := 3
		if L < sh {
			sh = L
		}
		shards := int64(1)
		for i := 0; i < sh; i++ {
			shards *= int64(k)
		}
		L := L
		r.Parallel(shards, 1, func(w *W, idx int64) {
			buf := make([]byte, L)
			ix := make([]int, L)
			x := idx
			for i := sh - 1; i >= 0; i-- {
				ix[i] = int(x % int64(k))
				x /= int64(k)
			}
			for i := 0; i < L; i++ {
				buf[i] = alphabet[ix[i]]
			}
			for {
				fn(w, buf)
				if w.Expired() {
					return
				}
				// odometer on positions sh..L-1, last position fastest
				p := L - 1
				for p >= sh {
					ix[p]++
					if ix[p] < k {
						buf[p] = alphabet[ix[p]]
						break
					}
					ix[p] = 0
					buf[p] = alphabet[0]
					p--
				}
				if p < sh {
					return
				}
			}
		})
	}
}

// CountStrings returns the number of strings Strings would enumerate.
func CountStrings(k, minLen, maxLen int) int64 {
	var t int64
	for L := minLen; L <= maxLen; L++ {
		n := int64(1)
		for i := 0; i < L; i++ {
			n *= int64(k)
		}
		t += n
	}
	return t
}

// ---------------------------------------------------------------------------
// E1: stateless choice-tree explorer (deviation bounded).

// Ctx is the choice context handed to an explored body.
type Ctx struct {
	trail   []int // choices taken so far in this execution
	arity   []int
	devCost []bool // whether a non-zero answer at this position costs one deviation
	prefix  []int  // choices to replay
	pos     int
	devs    int
}

// Choose returns a free choice in [0,n).
func (c *Ctx) Choose(n int) int { return c.choose(n, false) }

// Deviate returns a choice in [0,n) whose non-zero answers each cost one unit of the deviation budget.
func (c *Ctx) Deviate(n int) int { return c.choose(n, true) }

// Bool is Choose(2)==1.
func (c *Ctx) Bool() bool { return c.Choose(2) == 1 }

func (c *Ctx) choose(n int, dev bool) int {
	if n <= 0 {
		panic("mc: Choose(n<=0)")
	}
	v := 0
	if c.pos < len(c.prefix) {
		v = c.prefix[c.pos]
		if v >= n {
			panic(fmt.Sprintf("mc: nondeterministic body: replayed choice %d out of range %d at depth %d", v, n, c.pos))
		}
	}
	c.trail = append(c.trail, v)
	c.arity = append(c.arity, n)
	c.devCost = append(c.devCost, dev)
	if dev && v != 0 {
		c.devs++
	}
	c.pos++
	return v
}

// Devs is the number of deviations taken so far in this execution.
func (c *Ctx) Devs() int { return c.devs }

// Trail returns a copy of the choices of this execution.
func (c *Ctx) Trail() []int { return append([]int(nil), c.trail...) }

func (c *Ctx) reset(prefix []int) {
	c.trail = c.trail[:0]
	c.arity = c.arity[:0]
	c.devCost = c.devCost[:0]
	c.prefix = prefix
	c.pos = 0
	c.devs = 0
}

// ExploreStats is what Explore reports.
type ExploreStats struct {
	Executions int64
	MaxDepth   int
	Bound      int
}

// Explore runs body for every choice sequence with at most bound deviations
// (bound < 0: unbounded). The tree is sharded over the workers at depth
// shardDepth (prefixes discovered by dry executions whose results are
// discarded). body must be deterministic given its choices.
func (r *Run) Explore(bound int, shardDepth int, body func(w *W, c *Ctx)) ExploreStats {
	// discover prefixes
	prefixes := [][]int{{}}
	for d := 0; d < shardDepth; d++ {
		var next [][]int
		for _, p := range prefixes {
			if len(p) < d { // execution ended before depth d
				next = append(next, p)
				continue
			}
			w := r.newW()
			w.dry = true
			c := &Ctx{}
			c.reset(p)
			body(w, c)
			if len(c.arity) <= d {
				next = append(next, p)
				continue
			}
			devsBefore := 0
			for i := 0; i < d; i++ {
				if c.devCost[i] && c.trail[i] != 0 {
					devsBefore++
				}
			}
			for v := 0; v < c.arity[d]; v++ {
				if v != 0 && c.devCost[d] && bound >= 0 && devsBefore+1 > bound {
					continue
				}
				next = append(next, append(append([]int(nil), p...), v))
			}
		}
		prefixes = next
	}
	var execs atomic.Int64
	var maxDepth atomic.Int64
	r.Parallel(int64(len(prefixes)), 1, func(w *W, i int64) {
		fixed := prefixes[i]
		c := &Ctx{}
		cur := append([]int(nil), fixed...)
		for {
			c.reset(cur)
			body(w, c)
			execs.Add(1)
			if int64(len(c.trail)) > maxDepth.Load() {
				maxDepth.Store(int64(len(c.trail)))
			}
			if len(c.trail) < len(fixed) {
				panic("mc: nondeterministic body: execution shorter than its shard prefix")
			}
			// next sequence: increment the deepest position that can be incremented within the budget
			p := len(c.trail) - 1
			for ; p >= len(fixed); p-- {
				nv := c.trail[p] + 1
				if nv >= c.arity[p] {
					continue
				}
				if c.devCost[p] && bound >= 0 {
					devsBefore := 0
					for q := 0; q < p; q++ {
						if c.devCost[q] && c.trail[q] != 0 {
							devsBefore++
						}
					}
					if devsBefore+1 > bound {
						continue
					}
				}
				break
			}
			if p < len(fixed) {
				return
			}
			cur = append(cur[:0], c.trail[:p]...)
			cur = append(cur, c.trail[p]+1)
			if w.R.expired.Load() {
				return
			}
		}
	})
	return ExploreStats{Executions: execs.Load(), MaxDepth: int(maxDepth.Load()), Bound: bound}
}

// ---------------------------------------------------------------------------
// E2: explicit-state breadth-first search over a comparable state type.

// BFSStats is what BFS reports.
type BFSStats struct {
	States      int
	Transitions int64
	Depth       int
	FixPoint    bool
}

// BFS explores all states reachable from init by ops 0..nOps-1. step calls
// the real implementation, checks the transition invariant (recording
// violations itself) and returns the successor. The search ends at the
// fix-point or at maxDepth (reported, FixPoint=false).
func BFS[S comparable](r *Run, init []S, nOps int, maxDepth int, step func(w *W, s S, op int) S) BFSStats {
	w := r.newW()
	defer w.flush()
	seen := map[S]int{}
	var frontier []S
	for _, s := range init {
		if _, ok := seen[s]; !ok {
			seen[s] = 0
			frontier = append(frontier, s)
		}
	}
	st := BFSStats{}
	depth := 0
	for len(frontier) > 0 {
		if maxDepth >= 0 && depth >= maxDepth || r.expired.Load() {
			st.States, st.Depth = len(seen), depth
			w.points += int64(len(seen))
			return st
		}
		depth++
		var next []S
		for _, s := range frontier {
			for op := 0; op < nOps; op++ {
				t := step(w, s, op)
				st.Transitions++
				if _, ok := seen[t]; !ok {
					seen[t] = depth
					next = append(next, t)
				}
			}
		}
		frontier = next
	}
	st.States, st.Depth, st.FixPoint = len(seen), depth, true
	w.points += int64(len(seen))
	return st
}

// Serial runs fn on the calling goroutine with a worker context (for small phases).
func (r *Run) Serial(fn func(w *W)) {
	w := r.newW()
	w.serial = true
	fn(w)
	w.flush()
}

// SpecialWords are texts that conventions of other layers give a meaning ("no value", "default", a JSON literal, a
// database NULL, a number's special values): a shortcut for one of them in a single entry point is a plausible slip
// that no grammar-derived alphabet contains. Checks feed them to every input path next to the 1-deviation mutants.
var SpecialWords = []string{"null", "NULL", "Null", "nil", "none", "None", "undefined", "true", "false", "nan", "NaN", "inf", "-", "+", ".", "..", "*", "?", "x", "latest", "now", "today", "zero", "default", "auto",
	"\"\"", "''", "{}", "[]", "0", "-0", "+0", "00", "0x0", "0.0", "1e0", "\x00", " ", "\n", "\r\n", "\t", "\ufeff", "N/A", "n/a", "#", "~", "_", "unknown", "max", "min", "any"}
