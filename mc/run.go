// Package mc is the small model-checking toolkit shared by all checks:
// a Run (flags, deadline, counters, evidence, violations, known findings,
// replay), parallel exhaustive enumerators (E1), an explicit-state search
// (E2) and, in package mc/sched, the controlled scheduler (E3).
package mc

import (
	"crypto/sha256"
	"encoding/hex"
	"encoding/json"
	"flag"
	"fmt"
	"os"
	"path/filepath"
	"regexp"
	"runtime"
	"runtime/debug"
	"sort"
	"strconv"
	"strings"
	"sync"
	"sync/atomic"
	"time"
)

// Root is the directory holding evidence/, replays/ and known_findings.json.
var Root = func() string {
	if d := os.Getenv("VERIF_ROOT"); d != "" {
		return d
	}
	return "/verif"
}()

// Violation is one failed oracle clause on one explored point.
type Violation struct {
	Property string          `json:"property"`
	Probe    string          `json:"probe"`
	Kind     string          `json:"kind"`
	Arg      json.RawMessage `json:"arg"`
	Detail   string          `json:"detail"`
	Phase    string          `json:"phase,omitempty"`
	// ConcurrentOnly: the violation does not reproduce when the probe is called alone, but does when the same entry points
	// are called from several goroutines at once (shared mutable state inside the library); Noise holds the other arguments
	// that were running concurrently.
	ConcurrentOnly bool              `json:"concurrent_only,omitempty"`
	Noise          []json.RawMessage `json:"noise,omitempty"`
	// FromInitialState: the point was explored directly after the library's hidden package-level state had been put back
	// to what it is in a fresh process (LibReset); the replay does the same.
	FromInitialState bool `json:"from_initial_state,omitempty"`
}

// LibReset, when the check was built with the hooks of tools/ovgen (build tag verif), puts the hidden package-level state
// of the library under test (everything but its exported configuration variables and error values) back to its initial
// value. In the first pass (serial history phases only) every probe execution starts with it, so that every explored
// history is a history of a fresh process: state the library builds on first use cannot hide behind earlier calls.
var LibReset func()

// LibResetPackage: the same per library package (date, roman, sem, size, uu, test).
var LibResetPackage map[string]func()

// KnownFinding identifies a recorded genuine defect by probe, kind and a
// regular expression over the compact JSON of the probe argument.
type KnownFinding struct {
	Property string `json:"property"`
	Probe    string `json:"probe"`
	Kind     string `json:"kind"`
	ArgRegex string `json:"arg_regex"`
	What     string `json:"what"`
	re       *regexp.Regexp
}

type findingsFile struct {
	Findings []KnownFinding `json:"findings"`
	Fixed    []string       `json:"fixed"`
}

// PhaseInfo describes one fully or partially enumerated sub-space.
type PhaseInfo struct {
	Name       string  `json:"name"`
	Points     int64   `json:"points"`
	Calls      int64   `json:"impl_calls"`
	Exhaustive bool    `json:"exhaustive"`
	Bound      string  `json:"bound,omitempty"`
	WallS      float64 `json:"wall_s"`
}

// Run is the state of one check execution.
type Run struct {
	ID       string
	Tier     string
	Seed     int64
	Workers  int
	start    time.Time
	deadline time.Time
	expired  atomic.Bool

	points      atomic.Int64 // distinct explored points (states)
	calls       atomic.Int64 // implementation calls (transitions)
	nontrivial  atomic.Int64
	outcomes    sync.Map // string -> *atomic.Int64
	mu          sync.Mutex
	samples     []any
	sampleSeen  map[string]int
	viol        map[string]*Violation
	violOrder   []string
	violTotal   int64
	violFull    sync.Map
	violMore    atomic.Int64
	phases      []PhaseInfo
	curPhase    string
	Assumptions []string
	Rule        string
	Extra       map[string]any
	probes      map[string]replayer
	Reset       func() // restores package globals of the library under test
	known       []KnownFinding
	infraErr    []string
	extViol     []string
	replayPath  string
	wsMu        sync.Mutex
	ws          []*W
	firstPass   bool // Main runs the body twice: first only the serial history phases, then everything
}

type replayer interface {
	replay(arg json.RawMessage, fromInitialState bool) (kind, detail string, err error)
	stress(arg json.RawMessage, noise []json.RawMessage, goroutines, iterations int) (kind, detail string, err error)
}

// W is a per-worker context with local counters (flushed when the worker ends).
type W struct {
	R          *Run
	points     int64
	calls      int64
	nontrivial int64
	outcomes   map[string]int64
	dry        bool
	serial     bool // the worker of Run.Serial: the only goroutine calling the library
	cur        atomic.Pointer[inflight]
	tick       int
}

func (w *W) Point()           { w.points++ }
func (w *W) Points(n int64)   { w.points += n }
func (w *W) Calls(n int64)    { w.calls += n }
func (w *W) NonTrivial()      { w.nontrivial++ }
func (w *W) Outcome(c string) { w.outcomes[c]++ }
func (w *W) Dry() bool        { return w.dry }
func (w *W) Sample(class string, v any) {
	if w.dry {
		return
	}
	w.R.Sample(class, v)
}

// Expired reports whether the run's internal deadline has passed (checked cheaply).
func (w *W) Expired() bool {
	w.tick++
	if w.tick&0xff != 0 {
		return false
	}
	return w.R.expired.Load()
}

func (r *Run) newW() *W {
	w := &W{R: r, outcomes: map[string]int64{}}
	r.wsMu.Lock()
	r.ws = append(r.ws, w)
	r.wsMu.Unlock()
	return w
}

// inflight is the probe execution a worker is in (watched by the watchdog: a call into the library that does not return).
type inflight struct {
	probe   string
	arg     func() ([]byte, error)
	initial bool
	start   time.Time
}

// watchdog: a probe execution that has not returned after the limit is re-executed once on a fresh goroutine; if that does
// not return either, it is reported as a violation of kind no_return (the entry point hangs on this input) with the usual
// replay file, and the run ends - a hung call cannot be abandoned, and a check that never ends decides nothing.
func (r *Run) watchdog(limit time.Duration) {
	for {
		time.Sleep(2 * time.Second)
		r.wsMu.Lock()
		ws := append([]*W(nil), r.ws...)
		r.wsMu.Unlock()
		for _, w := range ws {
			f := w.cur.Load()
			if f == nil || time.Since(f.start) < limit {
				continue
			}
			arg, err := f.arg()
			if err != nil {
				continue
			}
			p := r.probes[f.probe]
			done := make(chan struct{})
			go func() {
				defer func() { _ = recover(); close(done) }()
				p.replay(arg, f.initial)
			}()
			select {
			case <-done: // the second execution returned: the first one was only slow (or depends on state we do not have)
				if w.cur.Load() == f {
					r.Infra("probe %s arg %s did not return within %v but a re-execution did: no verdict", f.probe, arg, limit)
					fmt.Printf("INFRASTRUCTURE ERROR: probe %s arg %s did not return within %v but a re-execution did: no verdict\n", f.probe, arg, limit)
					os.Exit(2)
				}
				continue
			case <-time.After(limit):
			}
			v := &Violation{Property: r.ID, Probe: f.probe, Kind: "no_return", Arg: arg, Phase: r.curPhase, FromInitialState: f.initial,
				Detail: fmt.Sprintf("the call did not return within %v (twice): the entry point hangs on this input", limit)}
			path := r.writeReplay(v)
			fmt.Printf("  probe=%s kind=%s arg=%s\n    %s\n", v.Probe, v.Kind, v.Arg, v.Detail)
			fmt.Printf("VIOLATION property=%s replay=%s\n", r.ID, path)
			os.Exit(1)
		}
	}
}

func (w *W) flush() {
	if w.dry {
		return
	}
	r := w.R
	r.points.Add(w.points)
	r.calls.Add(w.calls)
	r.nontrivial.Add(w.nontrivial)
	for k, v := range w.outcomes {
		c, _ := r.outcomes.LoadOrStore(k, new(atomic.Int64))
		c.(*atomic.Int64).Add(v)
	}
	w.points, w.calls, w.nontrivial = 0, 0, 0
	w.outcomes = map[string]int64{}
}

// Sample keeps up to 3 samples per class (so that readers can see what the cases look like).
func (r *Run) Sample(class string, v any) {
	r.mu.Lock()
	defer r.mu.Unlock()
	if r.sampleSeen[class] >= 3 || len(r.samples) >= 60 || r.firstPass {
		return
	}
	r.sampleSeen[class]++
	r.samples = append(r.samples, map[string]any{"class": class, "case": v})
}

// Abort ends the run now: the message is recorded as an infrastructure error, what has been found so far is reported the
// usual way (exit 1 if there are violations, else exit 2: no verdict). For harnesses that find themselves unable to continue.
func (r *Run) Abort(format string, a ...any) {
	r.Infra(format, a...)
	fmt.Fprintf(os.Stderr, "INFRASTRUCTURE ERROR: "+format+"\n", a...)
	os.Exit(r.finish())
}

// FirstPass reports whether the body is being run for the first time (serial history phases only, see Main).
func (r *Run) FirstPass() bool { return r.firstPass }

// Assume records an assumption / trusted-base statement for the evidence file.
func (r *Run) Assume(s string) {
	for _, a := range r.Assumptions {
		if a == s {
			return
		}
	}
	r.Assumptions = append(r.Assumptions, s)
}

// ExternalViolation records a violation found by an auxiliary tool run (e.g. the race detector), with its own replay artefact.
func (r *Run) ExternalViolation(replayPath, text string) {
	r.mu.Lock()
	defer r.mu.Unlock()
	r.extViol = append(r.extViol, replayPath)
	fmt.Printf("  %s\n", text)
}

// Infra records an infrastructure error (no verdict; exit code 2).
func (r *Run) Infra(format string, a ...any) {
	r.mu.Lock()
	defer r.mu.Unlock()
	r.infraErr = append(r.infraErr, fmt.Sprintf(format, a...))
}

func (r *Run) Quick() bool { return r.Tier == "quick" }

// Phase runs fn as a named sub-space; globals may be changed only between phases.
func (r *Run) Phase(name string, bound string, fn func()) {
	// First pass (see Main): only the serial history phases run, on a process in which the library has not been called
	// yet, so that state the library keeps from its first calls (a cache that stops filling after N entries, a lazily
	// built table, a once-only initialisation) cannot be used up by the mass phases before the histories are explored.
	if r.firstPass {
		if !strings.HasPrefix(name, "serial") {
			return
		}
		name += " [first pass: before any other phase, fresh process]"
	}
	if r.expired.Load() {
		r.phases = append(r.phases, PhaseInfo{Name: name, Exhaustive: false, Bound: "skipped: deadline reached before start"})
		return
	}
	p0, c0 := r.points.Load(), r.calls.Load()
	t0 := time.Now()
	r.curPhase = name
	fn()
	r.curPhase = ""
	r.phases = append(r.phases, PhaseInfo{Name: name, Points: r.points.Load() - p0, Calls: r.calls.Load() - c0,
		Exhaustive: !r.expired.Load(), Bound: bound, WallS: time.Since(t0).Seconds()})
	if os.Getenv("VERIF_VERBOSE") != "" {
		pi := r.phases[len(r.phases)-1]
		fmt.Fprintf(os.Stderr, "[%s] phase %-40s points=%d calls=%d exhaustive=%v %.1fs\n", r.ID, name, pi.Points, pi.Calls, pi.Exhaustive, pi.WallS)
	}
}

// HasViolations reports whether any violation has been recorded so far (the verdict is then decided: free-running
// supplements, which can end the process with an unrecoverable runtime error, need not run any more).
func (r *Run) HasViolations() bool {
	r.mu.Lock()
	defer r.mu.Unlock()
	return len(r.viol) > 0
}

func (r *Run) record(v *Violation) {
	key := v.Probe + "\x00" + v.Kind + "\x00" + string(v.Arg)
	r.mu.Lock()
	defer r.mu.Unlock()
	r.violTotal++
	if _, ok := r.viol[key]; ok {
		return
	}
	// keep at most 40 per (probe,kind) so that a systematic failure does not flood memory,
	// but different kinds are all retained
	n := 0
	for _, k := range r.violOrder {
		if strings.HasPrefix(k, v.Probe+"\x00"+v.Kind+"\x00") {
			n++
		}
	}
	if n >= 40 {
		r.violFull.Store(v.Probe+"\x00"+v.Kind, true)
		return
	}
	v.Property = r.ID
	v.Phase = r.curPhase
	r.viol[key] = v
	r.violOrder = append(r.violOrder, key)
}

// Probe is a named, replayable oracle step: it calls the implementation on
// one point and returns ("", "") when the property clause holds, otherwise
// the failed clause (kind) and a human-readable detail.
type Probe[A any] struct {
	r     *Run
	name  string
	setup func(A)
	fn    func(A) (kind, detail string)
	// SelfReset: the probe puts the library back to its initial state itself (Do and replay do not do it in front of it).
	SelfReset bool
}

// NewProbe registers a probe. setup (may be nil) installs the configuration
// (package globals) that the argument names; enumerators install it once
// per phase, the replay path installs it before the single call.
// (A probe with SelfReset set resets the library itself; see Probe.Do.)
func NewProbe[A any](r *Run, name string, setup func(A), fn func(A) (kind, detail string)) *Probe[A] {
	p := &Probe[A]{r: r, name: name, setup: setup, fn: fn}
	r.probes[name] = p
	return p
}

func (p *Probe[A]) call(a A) (kind, detail string) {
	defer func() {
		if x := recover(); x != nil {
			kind = "panic"
			detail = fmt.Sprintf("panic: %v\n%s", x, trimStack(debug.Stack()))
		}
	}()
	return p.fn(a)
}

func trimStack(b []byte) string {
	s := string(b)
	if len(s) > 1800 {
		s = s[:1800] + "…"
	}
	return s
}

// Do executes the probe on one point from a worker.
func (p *Probe[A]) Do(w *W, a A) bool {
	w.calls++
	initial := p.r.firstPass && w.serial && LibReset != nil
	if initial && !p.SelfReset {
		LibReset()
	}
	w.cur.Store(&inflight{probe: p.name, arg: func() ([]byte, error) { return json.Marshal(a) }, initial: initial, start: time.Now()})
	kind, detail := p.call(a)
	w.cur.Store(nil)
	if kind == "" {
		return true
	}
	if w.dry {
		return false
	}
	if _, full := p.r.violFull.Load(p.name + "\x00" + kind); full {
		p.r.violMore.Add(1)
		return false
	}
	arg, err := json.Marshal(a)
	if err != nil {
		p.r.Infra("cannot marshal probe argument of %s: %v", p.name, err)
		return false
	}
	p.r.record(&Violation{Probe: p.name, Kind: kind, Arg: arg, Detail: detail, FromInitialState: initial})
	return false
}

func (p *Probe[A]) replay(arg json.RawMessage, fromInitialState bool) (string, string, error) {
	var a A
	if err := json.Unmarshal(arg, &a); err != nil {
		return "", "", err
	}
	if fromInitialState && LibReset != nil && !p.SelfReset {
		LibReset()
	}
	if p.setup != nil {
		p.setup(a)
	}
	k, d := p.call(a)
	if p.r.Reset != nil {
		p.r.Reset()
	}
	return k, d, nil
}

// stress calls the probe on arg from several goroutines at once, mixed with calls on the noise arguments, and reports the
// first non-empty outcome observed for arg (configuration is installed once, from arg).
func (p *Probe[A]) stress(arg json.RawMessage, noise []json.RawMessage, goroutines, iterations int) (string, string, error) {
	var a A
	if err := json.Unmarshal(arg, &a); err != nil {
		return "", "", err
	}
	others := []A{a}
	for _, n := range noise {
		var x A
		if json.Unmarshal(n, &x) == nil {
			others = append(others, x)
		}
	}
	if p.setup != nil {
		p.setup(a)
	}
	var mu sync.Mutex
	var kind, detail string
	var found atomic.Bool
	var wg sync.WaitGroup
	for g := 0; g < goroutines; g++ {
		g := g
		wg.Add(1)
		go func() {
			defer wg.Done()
			deadline := time.Now().Add(2 * time.Second) // iterations is a lower bound; keep going for 2 s (rare windows need volume)
			for i := 0; (i < iterations || i%64 != 0 || time.Now().Before(deadline)) && !found.Load(); i++ {
				if (i+g)%2 == 0 {
					if k, d := p.call(a); k != "" {
						mu.Lock()
						if kind == "" {
							kind, detail = k, d
						}
						mu.Unlock()
						found.Store(true)
					}
				} else {
					p.call(others[(i+g)%len(others)])
				}
			}
		}()
	}
	wg.Wait()
	if p.r.Reset != nil {
		p.r.Reset()
	}
	return kind, detail, nil
}

// Main is the entry point of every check binary.
func Main(id string, rule string, body func(r *Run)) {
	tier := flag.String("tier", envOr("VERIF_TIER", "quick"), "quick|thorough")
	replay := flag.String("replay", "", "replay one violation file instead of exploring")
	budget := flag.Duration("budget", 0, "internal deadline (default: quick 120s, thorough 15m)")
	flag.Parse()
	if os.Getenv("GOGC") == "" {
		debug.SetGCPercent(800) // the probes allocate small short-lived objects on 16 workers; memory is not a constraint
	}
	if *tier != "quick" && *tier != "thorough" {
		fmt.Fprintln(os.Stderr, "bad tier")
		os.Exit(2)
	}
	seed, _ := strconv.ParseInt(os.Getenv("VERIF_SEED"), 10, 64)
	r := &Run{ID: id, Tier: *tier, Seed: seed, Workers: runtime.NumCPU(), start: time.Now(), Rule: rule,
		sampleSeen: map[string]int{}, viol: map[string]*Violation{}, probes: map[string]replayer{}, Extra: map[string]any{},
		replayPath: *replay}
	if n, err := strconv.Atoi(os.Getenv("VERIF_WORKERS")); err == nil && n > 0 {
		r.Workers = n
	}
	d := *budget
	if d == 0 {
		if v := os.Getenv("VERIF_BUDGET"); v != "" {
			d, _ = time.ParseDuration(v)
		}
	}
	if d == 0 {
		d = 120 * time.Second
		if *tier == "thorough" {
			d = 15 * time.Minute
		}
	}
	r.deadline = r.start.Add(d)
	timer := time.AfterFunc(d, func() { r.expired.Store(true) })
	defer timer.Stop()
	r.loadFindings()

	if *replay != "" {
		r.expired.Store(true) // registration only: phases are skipped
		body(r)
		os.Exit(r.doReplay(*replay))
	}
	hang := 30 * time.Second
	if *tier == "thorough" {
		hang = 2 * time.Minute
	}
	go r.watchdog(hang)
	r.firstPass = true
	body(r)
	r.firstPass = false
	if r.HasViolations() {
		// The serial histories from the initial state already found violations: the verdict is decided. The mass phases are
		// not started - a library with broken hidden state can end them with an unrecoverable runtime error (concurrent map
		// writes), which would lose what has been found.
		r.phases = append(r.phases, PhaseInfo{Name: "all remaining phases", Exhaustive: false, Bound: "skipped: the first pass (serial histories from the initial state) already found violations"})
		r.expired.Store(true)
		os.Exit(r.finish())
	}
	body(r)
	os.Exit(r.finish())
}

func envOr(k, d string) string {
	if v := os.Getenv(k); v != "" {
		return v
	}
	return d
}

// Replaying is true when the binary only replays a violation file (phases are skipped).
func (r *Run) Replaying() bool { return r.replayPath != "" }

func (r *Run) loadFindings() {
	b, err := os.ReadFile(filepath.Join(Root, "known_findings.json"))
	if err != nil {
		return
	}
	var f findingsFile
	if err := json.Unmarshal(b, &f); err != nil {
		fmt.Fprintln(os.Stderr, "known_findings.json unreadable:", err)
		os.Exit(2)
	}
	for _, k := range f.Findings {
		if k.Property != r.ID {
			continue
		}
		k.re = regexp.MustCompile(k.ArgRegex)
		r.known = append(r.known, k)
	}
}

func (r *Run) matchKnown(v *Violation) *KnownFinding {
	for i := range r.known {
		k := &r.known[i]
		if k.Probe == v.Probe && k.Kind == v.Kind && k.re.Match(v.Arg) {
			return k
		}
	}
	return nil
}

func (r *Run) doReplay(path string) int {
	b, err := os.ReadFile(path)
	if err != nil {
		fmt.Fprintln(os.Stderr, err)
		return 2
	}
	var v Violation
	if err := json.Unmarshal(b, &v); err != nil {
		fmt.Fprintln(os.Stderr, err)
		return 2
	}
	p, ok := r.probes[v.Probe]
	if !ok {
		fmt.Fprintf(os.Stderr, "unknown probe %q\n", v.Probe)
		return 2
	}
	type res struct {
		kind, detail string
		err          error
	}
	ch := make(chan res, 1)
	go func() {
		k, d, e := p.replay(v.Arg, v.FromInitialState)
		ch <- res{k, d, e}
	}()
	var kind, detail string
	select {
	case x := <-ch:
		kind, detail, err = x.kind, x.detail, x.err
	case <-time.After(60 * time.Second):
		kind, detail = "no_return", "the call did not return within 60s: the entry point hangs on this input"
	}
	if err == nil && kind == "" && v.ConcurrentOnly {
		for attempt := 0; attempt < 5 && kind == "" && err == nil; attempt++ {
			kind, detail, err = p.stress(v.Arg, v.Noise, 16, 4000)
		}
		if kind != "" {
			detail = "(only when called from several goroutines at once) " + detail
		}
	}
	if err != nil {
		fmt.Fprintln(os.Stderr, err)
		return 2
	}
	if kind == "" {
		fmt.Printf("REPLAY property=%s probe=%s arg=%s: holds on this tree\n", r.ID, v.Probe, v.Arg)
		return 0
	}
	fmt.Printf("REPLAY property=%s probe=%s kind=%s arg=%s\n%s\n", r.ID, v.Probe, kind, v.Arg, detail)
	fmt.Printf("VIOLATION property=%s replay=%s\n", r.ID, path)
	return 1
}

func (r *Run) finish() int {
	wall := time.Since(r.start).Seconds()
	r.violTotal += r.violMore.Load()
	// classify violations: reproduce 5x through the plain replay path first
	var unknown []*Violation
	var unstable []*Violation
	knownHit := map[string]int{}
	var knownOrder []*KnownFinding
	for _, key := range r.violOrder {
		v := r.viol[key]
		p := r.probes[v.Probe]
		stable := true
		for i := 0; i < 5; i++ {
			k, _, err := p.replay(v.Arg, v.FromInitialState)
			if err != nil || k != v.Kind {
				stable = false
				r.Infra("violation of probe %s kind %s arg %s did not reproduce on re-execution %d (got %q, err %v): harness nondeterminism, no verdict",
					v.Probe, v.Kind, v.Arg, i, k, err)
				break
			}
		}
		if !stable {
			unstable = append(unstable, v)
			continue
		}
		if k := r.matchKnown(v); k != nil {
			if knownHit[k.What] == 0 {
				knownOrder = append(knownOrder, k)
			}
			knownHit[k.What]++
			continue
		}
		unknown = append(unknown, v)
	}
	if len(unknown) == 0 && len(unstable) > 0 {
		// nothing reproduces when called alone: the violations were seen while the workers called the library concurrently.
		// Try to reproduce them under concurrent calls (shared mutable state inside the library shows up only then).
		tried := map[string]int{}
		for _, v := range unstable {
			if tried[v.Probe] >= 4 || len(unknown) >= 3 {
				continue
			}
			tried[v.Probe]++
			var noise []json.RawMessage
			for _, o := range unstable {
				if o.Probe == v.Probe && o != v && len(noise) < 6 {
					noise = append(noise, o.Arg)
				}
			}
			for attempt := 0; attempt < 3; attempt++ {
				k, d, err := r.probes[v.Probe].stress(v.Arg, noise, 16, 4000)
				if err == nil && k != "" {
					v.Kind, v.ConcurrentOnly, v.Noise = k, true, noise
					v.Detail = "(only when called from several goroutines at once; alone the same call behaves correctly) " + d
					if r.matchKnown(v) == nil {
						unknown = append(unknown, v)
					}
					break
				}
			}
		}
	}
	sort.SliceStable(unknown, func(i, j int) bool { // simplest counterexample first
		if len(unknown[i].Arg) != len(unknown[j].Arg) {
			return len(unknown[i].Arg) < len(unknown[j].Arg)
		}
		return string(unknown[i].Arg) < string(unknown[j].Arg)
	})
	exhaustive := true
	var caps []string
	for _, p := range r.phases {
		if !p.Exhaustive {
			exhaustive = false
			caps = append(caps, p.Name)
		}
	}
	outc := map[string]int64{}
	r.outcomes.Range(func(k, v any) bool { outc[k.(string)] = v.(*atomic.Int64).Load(); return true })
	cov := map[string]any{
		"states":                        r.points.Load(),
		"transitions":                   r.calls.Load(),
		"traces_validated_against_impl": r.points.Load(),
		"evaluations":                   r.points.Load(),
		"distinct_nontrivial":           r.nontrivial.Load(),
		"rule":                          r.Rule,
		"samples":                       r.samples,
		"exhaustive":                    exhaustive,
		"phases":                        r.phases,
		"outcome_classes":               outc,
		"distinct_outcome_classes":      len(outc),
		"deadline_s":                    r.deadline.Sub(r.start).Seconds(),
		"workers":                       r.Workers,
		"explanation": "bounded-exhaustive exploration of the real implementation (no separate model): every explored point is an " +
			"implementation execution compared in lock-step with an independent reference model; states = distinct explored points, " +
			"transitions = implementation calls; traces_validated_against_impl = states because every trace is an implementation trace",
	}
	if len(caps) > 0 {
		cov["capped_phases"] = caps
	}
	for k, v := range r.Extra {
		cov[k] = v
	}
	if len(r.samples) == 0 {
		cov["samples"] = []any{"(no sample recorded)"}
	}
	ev := map[string]any{
		"property_id": r.ID, "tier": r.Tier, "seed": r.Seed, "level": "model_checking",
		"coverage": cov, "assumptions": r.Assumptions, "wall_s": wall,
		"violations": len(unknown) + len(r.extViol), "violation_events": r.violTotal, "known_finding_hits": knownHit,
	}
	if len(r.infraErr) > 0 {
		ev["infrastructure_errors"] = r.infraErr
	}
	b, _ := json.MarshalIndent(ev, "", " ")
	os.MkdirAll(filepath.Join(Root, "evidence"), 0o755)
	if err := os.WriteFile(filepath.Join(Root, "evidence", r.ID+".json"), append(b, '\n'), 0o644); err != nil {
		fmt.Fprintln(os.Stderr, "cannot write evidence:", err)
		return 2
	}
	fmt.Printf("%s tier=%s states=%d transitions=%d outcome_classes=%d exhaustive=%v wall=%.1fs\n",
		r.ID, r.Tier, r.points.Load(), r.calls.Load(), len(outc), exhaustive, wall)
	for _, k := range knownOrder {
		fmt.Printf("KNOWN-FINDING: property=%s %s (%d explored points)\n", r.ID, k.What, knownHit[k.What])
	}
	if len(r.infraErr) > 0 {
		for _, e := range r.infraErr {
			fmt.Fprintln(os.Stderr, "INFRASTRUCTURE ERROR:", e)
		}
		if len(unknown) == 0 && len(r.extViol) == 0 {
			return 2
		}
		// reproducible violations exist as well: they are reported below; the non-reproducible ones stay listed above and in the evidence
	}
	for _, p := range r.extViol {
		fmt.Printf("VIOLATION property=%s replay=%s\n", r.ID, p)
	}
	if len(unknown) == 0 && len(r.extViol) > 0 {
		return 1
	}
	if len(unknown) == 0 {
		if r.points.Load() == 0 || len(outc) < 2 {
			fmt.Fprintf(os.Stderr, "INFRASTRUCTURE ERROR: vacuous run (points=%d, outcome classes=%d)\n", r.points.Load(), len(outc))
			return 2
		}
		return 0
	}
	dir := filepath.Join(Root, "replays", r.ID)
	os.MkdirAll(dir, 0o755)
	// one replay file per (probe, kind), at most 12 files; the first is the simplest found first
	seen := map[string]int{}
	files := 0
	for _, v := range unknown {
		pk := v.Probe + "/" + v.Kind
		seen[pk]++
		if seen[pk] > 2 || files >= 12 {
			continue
		}
		files++
		h := sha256.Sum256(append([]byte(pk), v.Arg...))
		path := filepath.Join(dir, hex.EncodeToString(h[:6])+".json")
		vb, _ := json.MarshalIndent(v, "", " ")
		os.WriteFile(path, append(vb, '\n'), 0o644)
		fmt.Printf("  probe=%s kind=%s arg=%s\n    %s\n", v.Probe, v.Kind, v.Arg, firstLines(v.Detail, 3))
		fmt.Printf("VIOLATION property=%s replay=%s\n", r.ID, path)
	}
	kinds := make([]string, 0, len(seen))
	for k, n := range seen {
		kinds = append(kinds, fmt.Sprintf("%s×%d", k, n))
	}
	sort.Strings(kinds)
	fmt.Printf("%s: %d distinct violating points retained (%d violation events); kinds: %s\n", r.ID, len(unknown), r.violTotal, strings.Join(kinds, ", "))
	return 1
}

// writeReplay stores one violation as a replay file and returns its path.
func (r *Run) writeReplay(v *Violation) string {
	dir := filepath.Join(Root, "replays", r.ID)
	os.MkdirAll(dir, 0o755)
	h := sha256.Sum256(append([]byte(v.Probe+"/"+v.Kind), v.Arg...))
	path := filepath.Join(dir, hex.EncodeToString(h[:6])+".json")
	vb, _ := json.MarshalIndent(v, "", " ")
	os.WriteFile(path, append(vb, '\n'), 0o644)
	return path
}

func firstLines(s string, n int) string {
	l := strings.SplitN(s, "\n", n+1)
	if len(l) > n {
		l = l[:n]
	}
	return strings.Join(l, "\n    ")
}
